"""C14 Lossy encoding fills slices to the byte budget with the smallest qindex
(structural part, thin).

That a particular qindex is the smallest that fits, and the byte totals, are
arithmetic on runtime coefficient values and are not decided.  What the shape of
the code decides: the search visits quantisation indices in ascending order from
the requested minimum and returns at the first that fits (hence the smallest),
measuring the very coefficient sets it returns; what it returns is what is
stored in the slice; the budget each slice is measured against is the decoder's
own slice size expression; length fields are rounded up, and the last
high-quality length field takes the remainder so that the fields sum to the
budget.
"""
import ast

from ..core import AnalysisError, const_str, dotted, norm, short, subscript_key, pfind, pmatch, pall
from ..report import Result

PIC = "encoder.pictures"


def check(repo, tier="quick"):
    res = Result("C14")
    res.explanation = (
        "Shape of the first-fit search quantize_to_fit (ascending enumeration, return at the first fit, measured = returned), def-use of "
        "its result into the slice constructors, agreement of the per-slice budget expressions with the decoder's slice size expressions, "
        "rounding direction of the length fields and the remainder rule of the last high-quality length field."
    )
    res.rule("C14.a", "quantize_to_fit enumerates qindex = minimum, minimum+1, ... and returns at the first index whose total (each component rounded up to the alignment) is <= the target; the coefficient sets returned are the ones measured; there is no other exit from the loop")
    res.rule("C14.b", "each coefficient is quantised with max(0, qindex - matrix value), the index the decoder derives in slice_quantizers")
    res.rule("C14.c", "what the search returns is what is stored: the (qindex, components) result is unpacked and handed unchanged, in component order, to make_hq_slice / make_ld_slice, which store them under the matching fields")
    res.rule("C14.d", "high quality: the target is 8 * scaler * slice_bytes(state, sx, sy) with alignment 8 * scaler; length fields are ceil(bits / (8 * scaler)); the last field is total - y - c1 so that the fields sum to the budget; the scaler is at least ceil((largest slice - 4) / 255)")
    res.rule("C14.e", "low delay: the target is 8 * slice_bytes(state, sx, sy) - 7 - intlog2(8 * slice_bytes(state, sx, sy) - 7), the decoder's bits left after qindex and the length field; slice_y_length is the bit count of the luma coefficients")
    res.rule("C14.f", "calculate_coeffs_bits adds signed_exp_golomb_length of every coefficient up to the last non-zero one (trailing zeros cost nothing in a bounded block)")

    res.rule("C14.h", "the chosen index fits its field: between the search and the slice constructor, make_transform_data_hq_lossy / make_transform_data_ld_lossy reject (raise) an index above 2**w - 1, w being the width with which the description program reads qindex for that slice kind (8 bits as a one-byte literal in hq_slice, nbits 7 in ld_slice); the search itself has no upper bound")
    res.rule("C14.g", "the requested minimum reaches the search: in the encoder, every call from a function with a minimum_qindex (minimum_slice_size_scaler) parameter to a function that has a parameter of that name binds it to the caller's own value; make_sequence pairs pictures with their minima positionally; hidden-state and bug-pattern rules")
    m = repo.mod(PIC)
    for f in ("quantize_to_fit", "quantize_coeffs", "calculate_coeffs_bits", "calculate_hq_length_field", "make_hq_slice", "make_ld_slice", "make_transform_data_hq_lossy", "make_transform_data_ld_lossy", "get_safe_lossy_hq_slice_size_scaler"):
        if f not in m.funcs:
            raise AnalysisError("anchor vanished: encoder.pictures.%s" % f)
    rule_a(res, m)
    rule_b(repo, res, m)
    rule_c(res, m)
    rule_d(res, m)
    rule_e(repo, res, m)
    rule_f(res, m)
    rule_g(repo, res)
    res.floor("C14.g", 12)
    rule_h(repo, res, "C14.h")
    res.floor("C14.h", 2)
    res.floor("C14.a", 4)
    res.floor("C14.b", 2)
    res.floor("C14.c", 4)
    res.floor("C14.d", 5)
    res.floor("C14.e", 3)
    res.floor("C14.f", 2)
    res.assumptions = [
        "monotonicity of the coded size in qindex is not needed for 'smallest that fits' (the search is exhaustive from the minimum) but termination of the search is not decided",
        "byte totals over a picture and the +-slice_size_scaler tolerance are integer arithmetic and are not decided",
    ]
    res.trusted = ["pinned decoder expressions for slice sizes (ld_slice, hq_slice, slice_quantizers)"]
    return res


def rule_a(res, m):
    fn = m.funcs["quantize_to_fit"]
    where = "%s:quantize_to_fit" % m.rel
    params = [a.arg for a in fn.args.args]
    target, sets, align, minq = params[:4]
    loops = [n for n in fn.body if isinstance(n, ast.For)]
    ok = len(loops) == 1 and isinstance(loops[0].iter, ast.Call) and dotted(loops[0].iter.func) in ("count", "itertools.count") and [dotted(a) for a in loops[0].iter.args] == [minq] and not loops[0].iter.keywords and not loops[0].orelse
    res.check(ok, "C14.a", "search:ascending-from-minimum", where, "the search must be `for qindex in count(minimum_qindex)`: every index from the minimum upwards, in ascending order, step 1", by="for qindex in count(minimum_qindex)")
    if not ok:
        return
    loop = loops[0]
    q = dotted(loop.target)
    exits = [x for x in ast.walk(loop) if isinstance(x, (ast.Return, ast.Break, ast.Continue, ast.Raise))]
    rets = [x for x in exits if isinstance(x, ast.Return)]
    first_fit = False
    measured = None
    if len(exits) == 1 and len(rets) == 1:
        r = rets[0]
        p = getattr(r, "_parent", None)
        if isinstance(p, ast.If) and r in p.body and p in loop.body and not p.orelse and isinstance(p.test, ast.Compare) and len(p.test.ops) == 1:
            l, op, rr = p.test.left, p.test.ops[0], p.test.comparators[0]
            tot = dotted(l) if isinstance(op, ast.LtE) and dotted(rr) == target else dotted(rr) if isinstance(op, ast.GtE) and dotted(l) == target else None
            if tot is not None and isinstance(r.value, ast.Tuple) and len(r.value.elts) == 2 and dotted(r.value.elts[0]) == q:
                measured = (tot, dotted(r.value.elts[1]))
                first_fit = True
    res.check(first_fit, "C14.a", "search:return-at-first-fit", where, "the only exit from the loop must be `if total <= target_size: return (qindex, sets)` at the top level of the loop body (a `<` test, a break, or a conditional skip changes which index is chosen)", by="single exit: return (qindex, sets) under total <= target")
    if not first_fit:
        return
    tot, retsets = measured
    # total = sum(ceil(bits(set)/align)*align for set in retsets)
    td = [a for a in loop.body if isinstance(a, ast.Assign) and dotted(a.targets[0]) == tot]
    ok = False
    if len(td) == 1 and isinstance(td[0].value, ast.Call) and dotted(td[0].value.func) == "sum" and isinstance(td[0].value.args[0], (ast.GeneratorExp, ast.ListComp)):
        g = td[0].value.args[0]
        it = g.generators[0]
        ok = dotted(it.iter) == retsets and not it.ifs
        x = dotted(it.target)
        e = g.elt
        form = pmatch("(calculate_coeffs_bits(%s) + %s - 1) // %s * %s" % (x, align, align, align), e) is not None or pmatch("%s * ((calculate_coeffs_bits(%s) + %s - 1) // %s)" % (align, x, align, align), e) is not None
        ok = ok and form
    res.check(ok, "C14.a", "search:measures-what-it-returns", where, "the total compared with the target must be the sum, over the very coefficient sets that are returned, of calculate_coeffs_bits rounded up to a multiple of align_bits", by="sum(ceil(bits(s) / align) * align for s in returned sets)")
    # the returned sets are the quantisation of every input set with this qindex
    sd = [a for a in loop.body if isinstance(a, ast.Assign) and dotted(a.targets[0]) == retsets]
    ok = False
    if len(sd) == 1 and isinstance(sd[0].value, ast.ListComp):
        lc = sd[0].value
        it = lc.generators[0]
        c = dotted(it.target)
        ok = dotted(it.iter) == sets and not it.ifs and pmatch("quantize_coeffs(%s, %s.coeff_values, %s.quant_matrix_values)" % (q, c, c), lc.elt) is not None
    res.check(ok, "C14.a", "search:quantises-every-set-with-this-index", where, "every input coefficient set must be quantised with the current qindex and its own matrix values, in input order", by="[quantize_coeffs(qindex, c.coeff_values, c.quant_matrix_values) for c in coeff_sets]")


def rule_b(repo, res, m):
    fn = m.funcs["quantize_coeffs"]
    where = "%s:quantize_coeffs" % m.rel
    q, cv, mv = [a.arg for a in fn.args.args[:3]]
    n, e = pfind("[forward_quant(X_c, max(0, %s - X_m)) for X_c, X_m in zip(%s, %s)]" % (q, cv, mv), fn)
    if n is None:
        n, e = pfind("[forward_quant(X_c, max(%s - X_m, 0)) for X_c, X_m in zip(%s, %s)]" % (q, cv, mv), fn)
    res.check(n is not None, "C14.b", "quantize_coeffs:index-per-coefficient", where, "each coefficient must be quantised with max(0, qindex - its matrix value), pairing coefficients and matrix values positionally", by="forward_quant(c, max(0, qindex - m)) over zip(coeffs, matrix)")
    dm, sq = repo.func("pseudocode.quantization:slice_quantizers") if "vc2_conformance.pseudocode.quantization" in repo.modules and "slice_quantizers" in repo.mod("pseudocode.quantization").funcs else (None, None)
    if sq is None:
        for name, mod in repo.modules.items():
            if "slice_quantizers" in mod.funcs:
                dm, sq = mod, mod.funcs["slice_quantizers"]
    if sq is None:
        raise AnalysisError("decoder slice_quantizers not found")
    qp = sq.args.args[1].arg
    forms = [x for x in ast.walk(sq) if isinstance(x, ast.Call) and dotted(x.func) == "max" and len(x.args) == 2]
    ok = bool(forms) and all(any(isinstance(a, ast.Constant) and a.value == 0 for a in x.args) and any(isinstance(a, ast.BinOp) and isinstance(a.op, ast.Sub) and dotted(a.left) == qp and "quant_matrix" in norm(a.right) for a in x.args) for x in forms)
    res.check(ok and repo.is_pinned_function(sq), "C14.b", "slice_quantizers:same-rule", "%s:slice_quantizers" % dm.rel, "the decoder must derive every quantiser as max(qindex - quant_matrix[level][orient], 0) (pinned)", by="max(qindex - matrix, 0) in the pinned decoder")


def rule_c(res, m):
    for fname, maker, comps, fields in (
        ("make_transform_data_hq_lossy", "make_hq_slice", 3, ["y_transform", "c1_transform", "c2_transform"]),
        ("make_transform_data_ld_lossy", "make_ld_slice", 2, ["y_transform", "c_transform"]),
    ):
        fn = m.funcs[fname]
        where = "%s:%s" % (m.rel, fname)
        asg = [a for a in ast.walk(fn) if isinstance(a, ast.Assign) and isinstance(a.value, ast.Call) and dotted(a.value.func) == "quantize_to_fit"]
        ok = False
        if len(asg) == 1 and isinstance(asg[0].targets[0], ast.Tuple) and len(asg[0].targets[0].elts) == 2 and isinstance(asg[0].targets[0].elts[1], ast.Tuple):
            qv = dotted(asg[0].targets[0].elts[0])
            cvs = [dotted(x) for x in asg[0].targets[0].elts[1].elts]
            calls = [c for c in ast.walk(fn) if isinstance(c, ast.Call) and dotted(c.func) == maker]
            if len(calls) == 1 and len(cvs) == comps:
                args = [dotted(a) for a in calls[0].args]
                ok = args[:comps] == cvs and qv in args[comps:] and not calls[0].keywords
                # positions of qindex in the maker's signature
                mk = m.funcs[maker]
                mparams = [a.arg for a in mk.args.args]
                ok = ok and mparams[args.index(qv)] == "qindex" and mparams[:comps] == fields
        res.check(ok, "C14.c", "%s:result-stored-unchanged" % fname, where, "the (qindex, components) returned by quantize_to_fit must be passed unchanged and in order to %s" % maker, by="%s(<components in order>, ..., qindex)" % maker)
        mk = m.funcs[maker]
        kws = {}
        for c in ast.walk(mk):
            if isinstance(c, ast.Call) and dotted(c.func) in ("HQSlice", "LDSlice"):
                kws = {k.arg: dotted(k.value) for k in c.keywords}
        want = dict((f, f) for f in fields)
        want["qindex"] = "qindex"
        res.check(all(kws.get(k) == v for k, v in want.items()), "C14.c", "%s:fields-from-own-parameters" % maker, "%s:%s" % (m.rel, maker), "%s must store each parameter under the field of the same name (found %s)" % (maker, {k: kws.get(k) for k in want}), by="qindex and coefficient lists stored under their own names")


def rule_d(res, m):
    fn = m.funcs["make_transform_data_hq_lossy"]
    where = "%s:make_transform_data_hq_lossy" % m.rel
    n1, e1 = pfind("X_total = slice_bytes(X_state, X_sx, X_sy)", fn)
    ok = False
    if e1:
        n2, e2 = pfind("X_target = 8 * X_scaler * %s" % e1["X_total"], fn)
        if e2 is None:
            n2, e2 = pfind("X_target = 8 * %s * X_scaler" % e1["X_total"], fn)
        if e2:
            c = [x for x in ast.walk(fn) if isinstance(x, ast.Call) and dotted(x.func) == "quantize_to_fit"]
            ok = len(c) == 1 and dotted(c[0].args[0]) == e2["X_target"] and len(c[0].args) >= 3 and norm(c[0].args[2]) in ("8 * %s" % e2["X_scaler"], "%s * 8" % e2["X_scaler"])
            # loop variables: rows are sy, columns sx
            loops = [l for l in ast.walk(fn) if isinstance(l, ast.For) and isinstance(l.iter, ast.Call) and dotted(l.iter.func) == "enumerate"]
            if len(loops) == 2:
                outer, inner = sorted(loops, key=lambda l: l.lineno)
                ok = ok and dotted(outer.target.elts[0]) == e1["X_sy"] and dotted(inner.target.elts[0]) == e1["X_sx"] and dotted(inner.iter.args[0]) == dotted(outer.target.elts[1])
            else:
                ok = False
            mk = [x for x in ast.walk(fn) if isinstance(x, ast.Call) and dotted(x.func) == "make_hq_slice"]
            ok = ok and len(mk) == 1 and e1["X_total"] in [dotted(a) for a in mk[0].args] and e2["X_scaler"] in [dotted(a) for a in mk[0].args]
    res.check(ok, "C14.d", "hq:target-is-the-slice-budget", where, "each slice must be fitted to 8 * scaler * slice_bytes(state, sx, sy) bits with alignment 8 * scaler, rows enumerated as sy and columns as sx, and the same total and scaler handed to make_hq_slice", by="target = 8 * scaler * slice_bytes(state, sx, sy); align = 8 * scaler")
    # budget state
    st = [c for c in ast.walk(fn) if isinstance(c, ast.Call) and dotted(c.func) == "State"]
    ok = False
    if len(st) == 1:
        kw = {k.arg: k.value for k in st[0].keywords}
        nd = [a for a in ast.walk(fn) if isinstance(a, ast.Assign) and dotted(a.targets[0]) == dotted(kw.get("slice_bytes_numerator"))]
        ok = len(nd) == 1 and norm(nd[0].value) in ("%s - num_slices * 4" % fn.args.args[0].arg, "%s - 4 * num_slices" % fn.args.args[0].arg) and norm(kw.get("slice_bytes_denominator")) in ("num_slices * slice_size_scaler", "slice_size_scaler * num_slices")
    res.check(ok, "C14.d", "hq:coefficient-budget", where, "the bytes shared out between slices must be picture_bytes - 4 per slice (qindex and three length fields), in units of slice_size_scaler bytes", by="numerator picture_bytes - 4 * slices, denominator slices * scaler")
    lf = m.funcs["calculate_hq_length_field"]
    cp, sp = [a.arg for a in lf.args.args[:2]]
    ok = pfind("X_m = 8 * %s" % sp, lf)[0] is not None and pfind("return (calculate_coeffs_bits(%s) + X_m - 1) // X_m" % cp, lf)[0] is not None
    res.check(ok, "C14.d", "hq:length-field-rounds-up", "%s:calculate_hq_length_field" % m.rel, "a length field must be ceil(bits / (8 * slice_size_scaler)): rounding down truncates the last coefficients", by="(bits + 8*scaler - 1) // (8*scaler)")
    mk = m.funcs["make_hq_slice"]
    n, e = pfind("X_c2 = total_length - X_y - X_c1", mk)
    okr = False
    if e:
        okr = pfind("%s = calculate_hq_length_field(y_transform, slice_size_scaler)" % e["X_y"], mk)[0] is not None and pfind("%s = calculate_hq_length_field(c1_transform, slice_size_scaler)" % e["X_c1"], mk)[0] is not None
        kws = {}
        for c in ast.walk(mk):
            if isinstance(c, ast.Call) and dotted(c.func) == "HQSlice":
                kws = {k.arg: dotted(k.value) for k in c.keywords}
        okr = okr and kws.get("slice_y_length") == e["X_y"] and kws.get("slice_c1_length") == e["X_c1"] and kws.get("slice_c2_length") == e["X_c2"]
    res.check(okr, "C14.d", "hq:last-field-takes-the-remainder", "%s:make_hq_slice" % m.rel, "with a given total the third length must be total - y - c1 (so the three fields sum to the slice's budget) and each length stored under its own field", by="c2 = total - y - c1")
    sc = m.funcs["get_safe_lossy_hq_slice_size_scaler"]
    pb, ns = [a.arg for a in sc.args.args[:2]]
    n1, e1 = pfind("X_max = (%s + %s - 1) // %s" % (pb, ns, ns), sc)
    ok = False
    if e1:
        n2, e2 = pfind("X_f = %s - 4" % e1["X_max"], sc)
        if e2:
            n3, e3 = pfind("X_s = (%s + 254) // 255" % e2["X_f"], sc)
            ok = e3 is not None and (pfind("return max(1, %s)" % e3["X_s"], sc)[0] is not None or pfind("return max(%s, 1)" % e3["X_s"], sc)[0] is not None)
    res.check(ok, "C14.d", "hq:safe-scaler", "%s:get_safe_lossy_hq_slice_size_scaler" % m.rel, "the scaler must be max(1, ceil((ceil(picture_bytes / slices) - 4) / 255)): the largest slice's length fields then fit 8 bits", by="ceil((largest slice - 4) / 255), at least 1")


    # the scaler in use is never below the safe one: every definition of the name used as `scaler` above is
    # max(<safe call>, ...) -- a caller's override may raise it, not replace it
    fn = m.funcs["make_transform_data_hq_lossy"]
    scn = None
    for c in ast.walk(fn):
        if isinstance(c, ast.Call) and dotted(c.func) == "make_hq_slice":
            mkp = [a.arg for a in m.funcs["make_hq_slice"].args.args]
            if "slice_size_scaler" in mkp and mkp.index("slice_size_scaler") < len(c.args):
                scn = dotted(c.args[mkp.index("slice_size_scaler")])
    defs = [a for a in ast.walk(fn) if (isinstance(a, ast.Assign) and any(dotted(t) == scn for t in a.targets)) or (isinstance(a, ast.AugAssign) and dotted(a.target) == scn)]

    def safe_max(v):
        return isinstance(v, ast.Call) and dotted(v.func) == "max" and any(isinstance(x, ast.Call) and dotted(x.func) == "get_safe_lossy_hq_slice_size_scaler" and [dotted(y) for y in x.args] == [fn.args.args[0].arg, "num_slices"] for x in v.args)

    ok = scn is not None and len(defs) >= 1 and all(isinstance(a, ast.Assign) and safe_max(a.value) for a in defs)
    res.check(ok, "C14.d", "hq:scaler-at-least-the-safe-one", "%s:make_transform_data_hq_lossy" % m.rel, "the slice size scaler handed to make_hq_slice must be max(get_safe_lossy_hq_slice_size_scaler(picture_bytes, num_slices), <override>) at every definition (found %s): a smaller override lets a slice's budget exceed 255 scaler units and its third length field overflow 8 bits" % [short(a, 70) for a in defs], by="max(safe, override)")


def rule_e(repo, res, m):
    fn = m.funcs["make_transform_data_ld_lossy"]
    where = "%s:make_transform_data_ld_lossy" % m.rel
    n1, e1 = pfind("X_t = 8 * slice_bytes(X_state, X_sx, X_sy)", fn)
    ok = False
    if e1:
        t = e1["X_t"]
        a = pfind("%s -= 7" % t, fn)[0]
        b = pfind("%s -= intlog2(%s)" % (t, t), fn)[0]
        ok = a is not None and b is not None and n1.lineno < a.lineno < b.lineno
        c = [x for x in ast.walk(fn) if isinstance(x, ast.Call) and dotted(x.func) == "quantize_to_fit"]
        ok = ok and len(c) == 1 and dotted(c[0].args[0]) == t and c[0].lineno > b.lineno
        loops = [l for l in ast.walk(fn) if isinstance(l, ast.For) and isinstance(l.iter, ast.Call) and dotted(l.iter.func) == "enumerate"]
        if len(loops) == 2:
            outer, inner = sorted(loops, key=lambda l: l.lineno)
            ok = ok and dotted(outer.target.elts[0]) == e1["X_sy"] and dotted(inner.target.elts[0]) == e1["X_sx"] and dotted(inner.iter.args[0]) == dotted(outer.target.elts[1])
        else:
            ok = False
    res.check(ok, "C14.e", "ld:target-is-bits-left-after-the-header", where, "each slice must be fitted to 8 * slice_bytes(state, sx, sy) - 7 - intlog2(8 * slice_bytes(state, sx, sy) - 7) bits (rows enumerated as sy, columns as sx)", by="8*slice_bytes - 7 - intlog2(8*slice_bytes - 7)")
    # decoder's expression (pinned)
    dm, dfn = repo.func("decoder.transform_data_syntax:ld_slice")
    ok = pfind("X_l = intlog2(8 * slice_bytes(state, sx, sy) - 7)", dfn)[0] is not None and pfind("X_b = 8 * slice_bytes(state, sx, sy)", dfn)[0] is not None and pfind("X_b -= 7", dfn)[0] is not None and repo.is_pinned_function(dfn)
    res.check(ok, "C14.e", "ld:decoder-header-size", "%s:ld_slice" % dm.rel, "the pinned decoder must read 7 qindex bits and intlog2(8 * slice_bytes - 7) length bits out of 8 * slice_bytes", by="7 + intlog2(8*slice_bytes - 7) header bits (pinned)")
    mk = m.funcs["make_ld_slice"]
    kws = {}
    for c in ast.walk(mk):
        if isinstance(c, ast.Call) and dotted(c.func) == "LDSlice":
            kws = {k.arg: norm(k.value) for k in c.keywords}
    res.check(kws.get("slice_y_length") == "calculate_coeffs_bits(%s)" % mk.args.args[0].arg, "C14.e", "ld:luma-length-is-its-bit-count", "%s:make_ld_slice" % m.rel, "slice_y_length must be the number of bits the luma coefficients occupy (the colour-difference block gets exactly the rest)", by="slice_y_length = calculate_coeffs_bits(y_transform)")
    # the two components passed to the search: luma, then interleaved colour difference
    c = [x for x in ast.walk(fn) if isinstance(x, ast.Call) and dotted(x.func) == "quantize_to_fit"]
    ok = False
    if c and len(c[0].args) >= 2 and isinstance(c[0].args[1], ast.List) and len(c[0].args[1].elts) == 2:
        yv, cv = [dotted(x) for x in c[0].args[1].elts]
        yd = [a for a in ast.walk(fn) if isinstance(a, ast.Assign) and dotted(a.targets[0]) == yv]
        cd = [a for a in ast.walk(fn) if isinstance(a, ast.Assign) and dotted(a.targets[0]) == cv]
        ok = len(yd) == 1 and norm(yd[0].value).endswith(".Y") and len(cd) == 1 and norm(cd[0].value).count("interleave(") == 2 and norm(cd[0].value).index(".C1.coeff_values") < norm(cd[0].value).index(".C2.coeff_values")
    res.check(ok, "C14.e", "ld:components", where, "the search must receive [luma, interleave(C1, C2)] (the decoder reads C1 then C2 alternately)", by="[Y, interleave(C1, C2)]")


def rule_f(res, m):
    fn = m.funcs["calculate_coeffs_bits"]
    where = "%s:calculate_coeffs_bits" % m.rel
    cp = fn.args.args[0].arg
    loop = None
    for n in fn.body:
        if isinstance(n, ast.For) and isinstance(n.iter, ast.Call) and dotted(n.iter.func) == "reversed" and dotted(n.iter.args[0]) == cp:
            loop = n
    ok = False
    if loop is not None:
        c = dotted(loop.target)
        acc = pfind("X_n += signed_exp_golomb_length(%s)" % c, loop)
        skip = None
        for i in ast.walk(loop):
            if isinstance(i, ast.If) and isinstance(i.test, ast.BoolOp) and isinstance(i.test.op, ast.And) and any(norm(v) == "%s == 0" % c for v in i.test.values) and any(isinstance(b, ast.Continue) for b in i.body):
                flag = [dotted(v) for v in i.test.values if isinstance(v, ast.Name)]
                if flag:
                    skip = (i, flag[0])
        if acc[0] is not None and skip is not None:
            i, flag = skip
            cleared = pfind("%s = False" % flag, i)[0] is not None and any(pmatch("%s = False" % flag, b) is not None for b in i.orelse)
            init = any(pmatch("%s = True" % flag, b) is not None for b in fn.body)
            ret = pfind("return %s" % acc[1]["X_n"], fn)[0] is not None
            zero = any(pmatch("%s = 0" % acc[1]["X_n"], b) is not None for b in fn.body)
            ok = cleared and init and ret and zero and acc[0] in [x for b in i.orelse for x in ast.walk(b)]
    res.check(ok, "C14.f", "bits:sum-up-to-last-nonzero", where, "the bit count must add signed_exp_golomb_length(c) for every coefficient except the run of zeros at the end (scanning from the end, skipping zeros until the first non-zero value)", by="reverse scan; skip trailing zeros; += signed_exp_golomb_length(c)")
    # C14.i: the size model is exact only if the run of 1 bits that ends the last counted code (its sign bit, the
    # stop bit before it and a final 1 data bit) is not charged either: a bounded block reads 1s past its end, so those
    # bits need not be stored, exactly like the trailing zero coefficients.  With the plain sum above an index is
    # refused although its coefficients fit (witness: notes/witnesses/k10_*).
    if ok:
        n_acc = acc[1]["X_n"]
        corrections = [a for a in ast.walk(fn) if (isinstance(a, ast.AugAssign) and dotted(a.target) == n_acc and a is not acc[0]) or (isinstance(a, ast.Assign) and any(dotted(t) == n_acc for t in a.targets) and norm(a.value) != "0")]
        res.rule("C14.i", "the bit count of a bounded block does not charge the bits the decoder supplies for free: whole trailing zero coefficients (C14.f) and the trailing 1 bits of the last non-zero coefficient's code; a count that charges them makes the search skip an index whose coefficients fit")
        res.check(bool(corrections), "C14.i", "calculate_coeffs_bits:trailing-one-bits-of-the-last-code-are-free", where, "the count adds the full signed_exp_golomb_length of the last non-zero coefficient and nothing takes its trailing 1 bits (sign bit of a negative value, the stop bit before it, a final 1 data bit) off again, although a bounded block supplies them: quantize_to_fit therefore refuses indices whose coefficients fit the budget", by="some statement other than the per-coefficient accumulation adjusts the count (exactness of the adjustment itself is not decided)")
    tgt = None
    for n in m.tree.body:
        if isinstance(n, ast.ImportFrom):
            for a in n.names:
                if a.name == "signed_exp_golomb_length":
                    tgt = n.module
    res.check(tgt is not None and tgt.endswith("bitstream.exp_golomb"), "C14.f", "bits:length-function-is-the-serialiser's", where, "signed_exp_golomb_length must be the function of vc2_conformance.bitstream.exp_golomb (the one C20.d ties to write_sint)", by="imported from bitstream.exp_golomb")


FORWARDED = ("minimum_qindex", "minimum_slice_size_scaler")


def rule_g(repo, res):
    from .. import globals_state, lints

    mods = ["encoder.pictures", "encoder.sequence"]
    for name in mods:
        m = repo.mod(name)
        for fn in [f for f in ast.walk(m.tree) if isinstance(f, ast.FunctionDef)]:
            mine = set(a.arg for a in fn.args.args + fn.args.kwonlyargs)
            for c in ast.walk(fn):
                if not (isinstance(c, ast.Call) and isinstance(c.func, ast.Name)):
                    continue
                tgt = repo.resolve(m.name, c.func.id)
                if tgt is None or getattr(tgt, "kind", None) != "func" or tgt.node is None:
                    continue
                pos = [a.arg for a in tgt.node.args.args]
                for p in FORWARDED:
                    if p not in pos or p not in mine:
                        continue
                    val = None
                    i = pos.index(p)
                    if i < len(c.args) and not any(isinstance(a, ast.Starred) for a in c.args[: i + 1]):
                        val = c.args[i]
                    for k in c.keywords:
                        if k.arg == p:
                            val = k.value
                    ok = isinstance(val, ast.Name) and val.id == p
                    res.check(ok, "C14.g", "%s->%s:%s" % (fn.name, tgt.name, p), "%s:%s" % (m.rel, fn.name), "the call of %s at line %d must pass the caller's own %s (found %s)" % (tgt.name, c.lineno, p, short(val, 40) if val is not None else "nothing: the callee's default is used"), by="%s=%s" % (p, p))
    # make_sequence: per-picture minima
    m = repo.mod("encoder.sequence")
    fn = m.funcs.get("make_sequence")
    if fn is None:
        raise AnalysisError("anchor vanished: encoder.sequence.make_sequence")
    where = "%s:make_sequence" % m.rel
    n, e = pfind("for X_pic, X_q in zip(pictures, X_qs):\n    STMTS_", fn)
    ok = False
    if n is not None:
        calls = [c for c in ast.walk(n) if isinstance(c, ast.Call) and dotted(c.func) == "make_picture_data_units"]
        ok = len(calls) == 1 and len(calls[0].args) >= 3 and dotted(calls[0].args[1]) == e["X_pic"] and dotted(calls[0].args[2]) == e["X_q"]
        src, _ = pfind("%s = kwargs.pop('minimum_qindex', 0)" % e["X_qs"], fn)
        rep, _ = pfind("if not isinstance(%s, list):\n    %s = repeat(%s)" % (e["X_qs"], e["X_qs"], e["X_qs"]), fn)
        ok = ok and src is not None and rep is not None
    res.check(ok, "C14.g", "make_sequence:per-picture-minimum", where, "make_sequence must take minimum_qindex from its keyword arguments, repeat a scalar for every picture, pair the list with the pictures positionally and pass each picture its own minimum", by="zip(pictures, minimum_qindices) -> make_picture_data_units(.., picture, minimum_qindex, ..)")
    globals_state.rule(repo, res, "C14.g", mods, what="the quantisation index chosen for one slice")
    lints.rule(repo, res, "C14.g", mods)


def rule_h(repo, res, rid):
    """qindex range check between quantize_to_fit and make_*_slice"""
    m = repo.mod(PIC)
    bm = repo.mod("bitstream.vc2")
    # field widths from the description program
    widths = {}
    for fname, kind in (("hq_slice", "hq"), ("ld_slice", "ld")):
        bfn = bm.funcs.get(fname)
        if bfn is None:
            raise AnalysisError("anchor vanished: bitstream.vc2:%s" % fname)
        for c in ast.walk(bfn):
            if isinstance(c, ast.Call) and isinstance(c.func, ast.Attribute) and dotted(c.func.value) == "serdes" and c.args and const_str(c.args[0]) == "qindex" and len(c.args) == 2 and isinstance(c.args[1], ast.Constant):
                widths[kind] = c.args[1].value * 8 if c.func.attr == "uint_lit" else c.args[1].value if c.func.attr == "nbits" else None
    if set(widths) != {"hq", "ld"} or None in widths.values():
        raise AnalysisError("qindex field widths not found in the description program: %s" % widths)
    for fname, kind, ctor in (("make_transform_data_hq_lossy", "hq", "make_hq_slice"), ("make_transform_data_ld_lossy", "ld", "make_ld_slice")):
        fn = m.funcs.get(fname)
        where = "%s:%s" % (m.rel, fname)
        limit = (1 << widths[kind]) - 1
        ok = False
        found = "no unpacking of quantize_to_fit's result"
        for a in ast.walk(fn):
            if isinstance(a, ast.Assign) and isinstance(a.value, ast.Call) and dotted(a.value.func) == "quantize_to_fit" and isinstance(a.targets[0], ast.Tuple) and isinstance(a.targets[0].elts[0], ast.Name):
                q = a.targets[0].elts[0].id
                blk = None
                p = getattr(a, "_parent", None)
                for field in ("body", "orelse"):
                    b = getattr(p, field, None)
                    if isinstance(b, list) and any(x is a for x in b):
                        blk = b
                if blk is None:
                    continue
                rest = blk[[i for i, x in enumerate(blk) if x is a][0] + 1:]
                found = "no range check of %s before %s" % (q, ctor)
                for x in rest:
                    if any(isinstance(c, ast.Call) and dotted(c.func) == ctor for c in ast.walk(x)):
                        break
                    if isinstance(x, ast.If) and not x.orelse and x.body and isinstance(x.body[-1], ast.Raise):
                        t = norm(x.test)
                        if t in ("%s > %d" % (q, limit), "%s >= %d" % (q, limit + 1), "%s >= 1 << %d" % (q, widths[kind]), "%s > (1 << %d) - 1" % (q, widths[kind])):
                            ok = True
                        else:
                            found = "range check `%s` (the field holds 0..%d)" % (t, limit)
        res.check(ok, rid, "%s:qindex-fits-%d-bit-field" % (fname, widths[kind]), where, "the index returned by the (unbounded) search must be rejected with `if qindex > %d: raise ...` before it is stored in a slice: the %s qindex field is %d bits wide (%s)" % (limit, kind.upper(), widths[kind], found), by="if qindex > %d: raise, before %s" % (limit, ctor))
