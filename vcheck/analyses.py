"""Shared, per-Repo cached analyses (StateFlow run on the validator, call
graph, validator scope)."""
import ast

from .core import AnalysisError, dotted, subscript_key
from .callgraph import CallGraph
from .stateflow import StateFlow, axiom_A1
from . import a1 as a1mod

VALIDATOR_ROOTS = ["decoder.io:init_io", "decoder.stream:parse_stream"]

# Reads that are safe only because the profile fixes the LD/HQ picture family
# for a whole sequence (DESIGN C02.2).  Closed table: (function, key) -> reason.
PROFILE_CORRELATED = {
    ("slice_bytes", "slice_bytes_numerator"): "stored by slice_parameters under is_ld(state); read under is_ld(state) in a later fragment data unit",
    ("slice_bytes", "slice_bytes_denominator"): "stored by slice_parameters under is_ld(state); read under is_ld(state) in a later fragment data unit",
    ("hq_slice", "slice_prefix_bytes"): "stored by slice_parameters under is_hq(state); read under is_hq(state) in a later fragment data unit",
    ("hq_slice", "slice_size_scaler"): "stored by slice_parameters under is_hq(state); read under is_hq(state) in a later fragment data unit",
}


def cache(repo, key, fn):
    c = repo.__dict__.setdefault("_cache", {})
    if key not in c:
        c[key] = fn()
    return c[key]


def callgraph(repo):
    return cache(repo, "cg", lambda: CallGraph(repo))


def validator_reach(repo):
    return cache(repo, "vreach", lambda: callgraph(repo).reachable(VALIDATOR_ROOTS))


def a1_conditions(repo):
    return cache(repo, "a1", lambda: a1mod.check(repo))


# ---- bit-alignment events (discharges the byte-alignment assert) -----------
IO_ALIGN_PRESERVING = {"tell", "is_end_of_stream", "record_bitstream_start", "record_bitstream_finish", "init_io"}


def _align_post(sf, call, target, before, after, fr):
    if target is None or getattr(target, "kind", None) != "func":
        return after
    if not target.mod.endswith("decoder.io"):
        return after
    n = target.name
    if n in ("byte_align", "read_byte"):
        return after.with_E("aligned")
    if n == "read_uint_lit" or n in IO_ALIGN_PRESERVING:
        if "aligned" in before.E:
            return after.with_E("aligned")
        return _drop(after, "aligned")
    return _drop(after, "aligned")


def _drop(st, tag):
    if tag not in st.E:
        return st
    from .stateflow import AS

    return AS(st.D, st.F, st.P, st.E - frozenset([tag]))


def validator_stateflow(repo, use_a1=True, excepted=True):
    def build():
        sf = StateFlow(repo)
        conds = a1_conditions(repo)
        a1_ok = all(c[1] for c in conds)
        sf.a1_applied = bool(use_a1 and a1_ok)
        if sf.a1_applied:
            sf.axioms = [axiom_A1]
        if excepted:
            sf.excepted = dict(PROFILE_CORRELATED)
        sf.align_obs = []

        def pre(sf_, call, target, st, fr):
            if target is not None and getattr(target, "kind", None) == "func" and target.name == "record_bitstream_start":
                if sf_.recording:
                    sf_.align_obs.append((fr.mod, fr.name, call, "aligned" in st.E, fr.stack))
            return st

        sf.level_dict_obs = []  # (mod, fn, call node, key, ok, stack): uses of the level dict needing key "level"

        def pre_level(sf_, call, target, st, fr):
            if target is None or getattr(target, "kind", None) != "func":
                return st
            if target.name == "assert_level_constraint" and len(call.args) >= 2:
                from .core import const_str

                k = const_str(call.args[1])
                if k != "level" and sf_.recording:
                    sf_.level_dict_obs.append((fr.mod, fr.name, call, k, "lc:level" in st.E, fr.stack))
            return st

        def post_level(sf_, call, target, before, after, fr):
            if target is not None and getattr(target, "kind", None) == "func" and target.name == "assert_level_constraint" and len(call.args) >= 2:
                from .core import const_str

                if const_str(call.args[1]) == "level":
                    return after.with_E("lc:level")
            return after

        sf.hooks.append(pre)
        sf.hooks.append(pre_level)
        sf.post_hooks.append(_align_post)
        sf.post_hooks.append(post_level)
        sf.solve(VALIDATOR_ROOTS)
        return sf

    return cache(repo, ("sf", use_a1, excepted), build)
