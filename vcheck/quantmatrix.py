"""Shared rule: every use of the default quantisation matrix table is keyed by
the same 4-tuple.

vc2_data_tables.QUANTISATION_MATRICES is keyed by (wavelet_index,
wavelet_index_ho, dwt_depth, dwt_depth_ho).  The validator, the encoder and the
test-case generators each build that key by hand.  A key with an element
repeated, exchanged or read from another dictionary still finds *a* matrix for
every symmetric transform (the only kind most tests use), so nothing raises;
the parties then disagree on the matrix only for asymmetric transforms.

Rule: at every subscript of, and membership test against, the table, the key is
a 4-tuple (written in place, or a local assigned exactly once to one) whose
elements are D['wavelet_index'], D['wavelet_index_ho'], D['dwt_depth'],
D['dwt_depth_ho'] in that order, all read from one dictionary D.
"""
import ast

from .core import AnalysisError, const_str, dotted, short

TABLE = "QUANTISATION_MATRICES"
KEY = ("wavelet_index", "wavelet_index_ho", "dwt_depth", "dwt_depth_ho")


def _key_sites(m):
    out = []
    for fn in [f for f in ast.walk(m.tree) if isinstance(f, (ast.FunctionDef, ast.AsyncFunctionDef))]:
        for n in ast.walk(fn):
            if isinstance(n, ast.Subscript) and dotted(n.value) == TABLE:
                out.append((fn, n, n.slice, "lookup"))
            elif isinstance(n, ast.Compare) and len(n.ops) == 1 and isinstance(n.ops[0], (ast.In, ast.NotIn)) and dotted(n.comparators[0]) == TABLE:
                out.append((fn, n, n.left, "membership"))
    # nested functions are visited through their parents as well: dedupe by node
    seen, uniq = set(), []
    for fn, n, k, kind in out:
        if id(n) not in seen:
            seen.add(id(n))
            uniq.append((fn, n, k, kind))
    return uniq


def _tuple_of(fn, k):
    if isinstance(k, ast.Tuple):
        return k
    if isinstance(k, ast.Name):
        defs = [a.value for a in ast.walk(fn) if isinstance(a, ast.Assign) and any(isinstance(t, ast.Name) and t.id == k.id for t in a.targets)]
        other = [a for a in ast.walk(fn) if isinstance(a, (ast.AugAssign, ast.For)) and any(isinstance(x, ast.Name) and x.id == k.id and isinstance(x.ctx, ast.Store) for x in ast.walk(a.target))]
        if len(defs) == 1 and not other and isinstance(defs[0], ast.Tuple):
            return defs[0]
    return None


def rule(repo, res, rid, modules=None, floor=8):
    n_sites = 0
    for name, m in sorted(repo.modules.items()):
        short_name = name.split("vc2_conformance.", 1)[-1]
        if modules is not None and short_name not in modules:
            continue
        per_fn = {}
        for fn, n, k, kind in _key_sites(m):
            n_sites += 1
            per_fn[fn.name] = per_fn.get(fn.name, 0) + 1
            t = _tuple_of(fn, k)
            ok, found = False, short(k, 60)
            if t is not None and len(t.elts) == 4:
                keys = [const_str(e.slice) if isinstance(e, ast.Subscript) else None for e in t.elts]
                dicts = set(dotted(e.value) if isinstance(e, ast.Subscript) else None for e in t.elts)
                ok = tuple(keys) == KEY and len(dicts) == 1 and None not in dicts
                found = "(%s) of %s" % (", ".join(str(x) for x in keys), sorted(str(d) for d in dicts))
            res.check(ok, rid, "quant-matrix-key:%s:%s#%d" % (short_name, fn.name, per_fn[fn.name]), "%s:%s" % (m.rel, fn.name), "the %s of %s at line %d must use the key (D['wavelet_index'], D['wavelet_index_ho'], D['dwt_depth'], D['dwt_depth_ho']) of one dictionary D (found %s): for asymmetric transforms a different matrix is found than the other users of the table find" % (kind, TABLE, n.lineno, found), by="key = (wavelet_index, wavelet_index_ho, dwt_depth, dwt_depth_ho) of one dictionary")
    if n_sites < floor:
        raise AnalysisError("quantisation matrix key rule found %d site(s), fewer than the %d reviewed" % (n_sites, floor))
    return n_sites
