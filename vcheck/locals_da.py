"""Definite-assignment analysis for local variables (rule C02.1 and friends).

Syntax-directed must-analysis with:
  * short-circuit / conditional-expression aware evaluation,
  * closed-domain pruning: when a parameter's possible constant values are
    known (from StateFlow's call-site binding), `if p == "lit" ... elif ...`
    chains are pruned, so the standard's exhaustive chains do not report;
  * exception handlers entered from the state before the first statement of
    the try body that may raise a matching class (E8 summary table);
  * closures: free variables of a nested function are checked at each *call*
    of the nested function (at its definition if it escapes as a value).
"""
import ast
import builtins

from .core import AnalysisError, const_str, dotted, walk_no_nested

NO_RAISE_METHODS = {
    "lower", "upper", "strip", "lstrip", "rstrip", "split", "startswith", "endswith",
    "join", "append", "extend", "items", "keys", "values", "get", "copy", "add",
    "setdefault", "update", "partition", "replace", "isdigit", "ljust", "rjust", "popleft", "clear",
}
METHOD_RAISES = {
    "pop": {"KeyError", "IndexError"},
    "remove": {"ValueError", "KeyError"},
    "index": {"ValueError"},
    "format": {"KeyError", "IndexError", "ValueError"},
}
BUILTIN_RAISES = {
    "int": {"ValueError", "TypeError"},
    "float": {"ValueError", "TypeError"},
    "next": {"StopIteration"},
    "len": set(),
    "range": set(),
    "isinstance": set(),
    "iter": {"TypeError"},
    "filter": set(),
    "list": set(),
    "tuple": set(),
    "set": set(),
    "dict": set(),
    "str": set(),
    "bool": set(),
    "min": {"ValueError"},
    "max": {"ValueError"},
    "abs": set(),
    "sorted": set(),
    "enumerate": set(),
    "zip": set(),
    "repr": set(),
}
ANY = "*"


def may_raise_expr(e):
    out = set()
    for n in walk_no_nested(e):
        if isinstance(n, ast.Call):
            f = n.func
            if isinstance(f, ast.Name) and f.id in BUILTIN_RAISES:
                out |= BUILTIN_RAISES[f.id]
            elif isinstance(f, ast.Attribute) and f.attr in NO_RAISE_METHODS:
                pass
            elif isinstance(f, ast.Attribute) and f.attr in METHOD_RAISES:
                out |= METHOD_RAISES[f.attr]
            else:
                out.add(ANY)
        elif isinstance(n, ast.Subscript) and isinstance(n.ctx, ast.Load):
            out |= {"KeyError", "IndexError", "TypeError"}
        elif isinstance(n, ast.BinOp) and isinstance(n.op, (ast.Div, ast.Mod, ast.FloorDiv)):
            out |= {"ZeroDivisionError", "TypeError"}
        elif isinstance(n, ast.BinOp):
            out.add("TypeError")
    return out


def may_raise_stmt(s):
    """Exception class names the *first evaluation step* of a statement may
    raise (used to decide from where a handler can be entered)."""
    out = set()
    if isinstance(s, ast.Raise):
        if s.exc is None:
            return {ANY}
        out |= may_raise_expr(s.exc)
        t = s.exc.func if isinstance(s.exc, ast.Call) else s.exc
        out.add(dotted(t) or ANY)
        return out
    if isinstance(s, ast.Assert):
        return {"AssertionError"} | may_raise_expr(s.test)
    if isinstance(s, (ast.FunctionDef, ast.ClassDef, ast.Pass, ast.Global, ast.Nonlocal, ast.Import, ast.ImportFrom)):
        return set()
    for n in ast.iter_child_nodes(s):
        if isinstance(n, ast.expr):
            out |= may_raise_expr(n)
        elif isinstance(n, ast.stmt):
            out |= may_raise_stmt(n)
        elif isinstance(n, ast.ExceptHandler):
            for b in n.body:
                out |= may_raise_stmt(b)
        elif isinstance(n, ast.withitem):
            out |= may_raise_expr(n.context_expr) | {ANY}
    if isinstance(s, (ast.Assign, ast.AugAssign)):
        tg = s.targets if isinstance(s, ast.Assign) else [s.target]
        for t in tg:
            if isinstance(t, ast.Subscript):
                out |= {"KeyError", "IndexError", "TypeError"}
    if isinstance(s, ast.For):
        out.add(ANY)  # iteration protocol of an arbitrary iterable
    return out


def _exc_class(name):
    c = getattr(builtins, name, None)
    return c if isinstance(c, type) and issubclass(c, BaseException) else None


def handler_matches(handler, raised, is_subclass=None):
    """Can `handler` be entered by one of the class names in `raised`?"""
    if ANY in raised:
        return True
    if handler.type is None:
        return bool(raised)
    types = handler.type.elts if isinstance(handler.type, ast.Tuple) else [handler.type]
    for t in types:
        hn = dotted(t)
        hn = hn.split(".")[-1] if hn else None
        hc = _exc_class(hn) if hn else None
        for r in raised:
            r = r.split(".")[-1]
            if r == hn:
                return True
            rc = _exc_class(r)
            if hc is not None and rc is not None:
                if issubclass(rc, hc):
                    return True
            elif rc is None:
                # user-defined raised class: ask the repo hierarchy if given,
                # else assume it may match
                if is_subclass is None or is_subclass(r, hn):
                    return True
            elif hc is None:
                # user-defined handler class cannot catch a builtin class
                pass
    return False


class Failure(object):
    __slots__ = ("node", "name", "kind")

    def __init__(self, node, name, kind):
        self.node, self.name, self.kind = node, name, kind


def scope_locals(fn):
    """Names local to fn's own scope (params + any binding), minus global/nonlocal."""
    names = set()
    a = fn.args
    for x in a.posonlyargs + a.args + a.kwonlyargs:
        names.add(x.arg)
    if a.vararg:
        names.add(a.vararg.arg)
    if a.kwarg:
        names.add(a.kwarg.arg)
    outer = set()
    stack = list(fn.body)
    while stack:
        n = stack.pop()
        if isinstance(n, (ast.FunctionDef, ast.AsyncFunctionDef, ast.ClassDef)):
            names.add(n.name)
            continue
        if isinstance(n, (ast.Lambda, ast.ListComp, ast.SetComp, ast.DictComp, ast.GeneratorExp)):
            # own scope; but the first iterable is evaluated in the enclosing scope
            continue
        if isinstance(n, (ast.Global, ast.Nonlocal)):
            outer.update(n.names)
        if isinstance(n, ast.Name) and isinstance(n.ctx, (ast.Store, ast.Del)):
            names.add(n.id)
        if isinstance(n, ast.ExceptHandler) and n.name:
            names.add(n.name)
        if isinstance(n, (ast.Import, ast.ImportFrom)):
            for al in n.names:
                names.add((al.asname or al.name).split(".")[0])
        stack.extend(ast.iter_child_nodes(n))
    return names - outer


class LocalsDA(object):
    def __init__(self, fn, param_values=None, outer=frozenset(), outer_locals=frozenset(), is_subclass=None):
        self.fn = fn
        self.locals = scope_locals(fn)
        self.outer = frozenset(outer)  # definitely-assigned enclosing locals
        self.outer_locals = frozenset(outer_locals) - self.locals  # enclosing-scope local names
        self.failures = []
        self.param_values = dict(param_values or {})
        self.is_subclass = is_subclass
        self.nested = {}
        self.loads_checked = 0
        self.nested_results = []

    # -- entry
    def run(self):
        a = self.fn.args
        S = set(x.arg for x in a.posonlyargs + a.args + a.kwonlyargs)
        if a.vararg:
            S.add(a.vararg.arg)
        if a.kwarg:
            S.add(a.kwarg.arg)
        for d in a.defaults + [d for d in a.kw_defaults if d is not None]:
            pass
        self.env = {k: frozenset(v) for k, v in self.param_values.items() if v}
        self.returns = []
        self.loops = []
        out = self.block(self.fn.body, frozenset(S))
        return self.failures

    # -- expressions
    def load(self, node, S):
        name = node.id
        self.loads_checked += 1
        if name in self.locals:
            if name not in S:
                self.failures.append(Failure(node, name, "local"))
        elif name in self.outer_locals:
            if name not in self.outer:
                self.failures.append(Failure(node, name, "closure-free-var"))

    def expr(self, e, S):
        """returns S after evaluation (walrus not used in the repo: refused)."""
        if e is None:
            return S
        if isinstance(e, ast.Name):
            if isinstance(e.ctx, ast.Load):
                self.load(e, S)
            return S
        if isinstance(e, ast.Constant):
            return S
        if isinstance(e, ast.NamedExpr):
            raise AnalysisError("walrus operator not modelled")
        if isinstance(e, ast.BoolOp):
            S0 = self.expr(e.values[0], S)
            cur = S0
            for v in e.values[1:]:
                cur = self.expr(v, cur)
            return S0
        if isinstance(e, ast.IfExp):
            S = self.expr(e.test, S)
            self.expr(e.body, S)
            self.expr(e.orelse, S)
            return S
        if isinstance(e, ast.Lambda):
            inner = LocalsDA.__new__(LocalsDA)
            params = set(x.arg for x in e.args.args + e.args.kwonlyargs)
            for n in ast.walk(e.body):
                if isinstance(n, ast.Name) and isinstance(n.ctx, ast.Load) and n.id not in params:
                    self.load(n, S)
            return S
        if isinstance(e, (ast.ListComp, ast.SetComp, ast.GeneratorExp, ast.DictComp)):
            inner = set(S)
            extra_locals = set()
            for i, g in enumerate(e.generators):
                self._expr_with(g.iter, frozenset(inner), extra_locals)
                for n in ast.walk(g.target):
                    if isinstance(n, ast.Name):
                        inner.add(n.id)
                        extra_locals.add(n.id)
                for c in g.ifs:
                    self._expr_with(c, frozenset(inner), extra_locals)
            if isinstance(e, ast.DictComp):
                self._expr_with(e.key, frozenset(inner), extra_locals)
                self._expr_with(e.value, frozenset(inner), extra_locals)
            else:
                self._expr_with(e.elt, frozenset(inner), extra_locals)
            return S
        if isinstance(e, ast.Call):
            S = self.expr(e.func, S)
            for a in e.args:
                S = self.expr(a, S)
            for k in e.keywords:
                S = self.expr(k.value, S)
            if isinstance(e.func, ast.Name) and e.func.id in self.nested:
                self.check_nested_call(e.func.id, S)
            return S
        for c in ast.iter_child_nodes(e):
            if isinstance(c, ast.expr):
                S = self.expr(c, S)
        return S

    def _expr_with(self, e, S, extra_locals):
        saved = self.locals
        self.locals = self.locals | extra_locals
        try:
            self.expr(e, S)
        finally:
            self.locals = saved

    def check_nested_call(self, name, S):
        fn = self.nested[name]
        sub = LocalsDA(fn, outer=frozenset(S) | self.outer, outer_locals=self.locals | self.outer_locals, is_subclass=self.is_subclass)
        fails = sub.run()
        self.loads_checked += sub.loads_checked
        for f in fails:
            if not any(x.node is f.node for x in self.failures):
                self.failures.append(f)

    # -- refinement of the constant env by tests on parameters
    @staticmethod
    def _lit(e):
        """token of a literal operand: a string constant, or a dotted
        attribute path such as ParseCodes.padding_data (enum member)."""
        c = const_str(e)
        if c is not None:
            return c
        if isinstance(e, ast.Attribute):
            d = dotted(e)
            if d and "." in d:
                return "<%s>" % d
        return None

    def test_values(self, test):
        """(name, literal set tested for equality) for `p == "a"` /
        `p == "a" or p == "b"` / `p in ("a", "b")`; None otherwise."""
        if isinstance(test, ast.Compare) and len(test.ops) == 1 and isinstance(test.ops[0], ast.Eq):
            if isinstance(test.left, ast.Name) and self._lit(test.comparators[0]) is not None:
                return test.left.id, frozenset([self._lit(test.comparators[0])])
        if isinstance(test, ast.Compare) and len(test.ops) == 1 and isinstance(test.ops[0], ast.In) and isinstance(test.left, ast.Name):
            c = test.comparators[0]
            if isinstance(c, (ast.Tuple, ast.List, ast.Set)) and c.elts and all(self._lit(x) is not None for x in c.elts):
                return test.left.id, frozenset(self._lit(x) for x in c.elts)
        if isinstance(test, ast.BoolOp) and isinstance(test.op, ast.Or):
            name, vals = None, set()
            for v in test.values:
                r = self.test_values(v)
                if r is None or (name is not None and r[0] != name):
                    return None
                name = r[0]
                vals |= r[1]
            return name, frozenset(vals)
        return None

    # -- statements
    def block(self, stmts, S):
        for s in stmts:
            if S is None:
                return None
            S = self.stmt(s, S)
        return S

    def bind(self, tgt, S):
        if isinstance(tgt, ast.Name):
            self.env.pop(tgt.id, None)
            return S | {tgt.id}
        if isinstance(tgt, (ast.Tuple, ast.List)):
            for e in tgt.elts:
                S = self.bind(e, S)
            return S
        if isinstance(tgt, ast.Starred):
            return self.bind(tgt.value, S)
        # subscript / attribute target: loads of its parts
        return self.expr(tgt, S)

    def stmt(self, s, S):
        if isinstance(s, ast.Expr):
            return self.expr(s.value, S)
        if isinstance(s, ast.Assign):
            S = self.expr(s.value, S)
            for t in s.targets:
                S = self.bind(t, S)
            return S
        if isinstance(s, ast.AugAssign):
            if isinstance(s.target, ast.Name):
                self.load(s.target, S)
            else:
                S = self.expr(s.target, S)
            S = self.expr(s.value, S)
            return self.bind(s.target, S) if isinstance(s.target, ast.Name) else S
        if isinstance(s, ast.AnnAssign):
            S = self.expr(s.value, S)
            return self.bind(s.target, S) if s.value is not None else S
        if isinstance(s, ast.Return):
            self.expr(s.value, S)
            return None
        if isinstance(s, ast.Raise):
            S = self.expr(s.exc, S)
            self.expr(s.cause, S)
            return None
        if isinstance(s, ast.Assert):
            S = self.expr(s.test, S)
            self.expr(s.msg, S)
            return S
        if isinstance(s, (ast.Pass, ast.Global, ast.Nonlocal)):
            return S
        if isinstance(s, (ast.Import, ast.ImportFrom)):
            for al in s.names:
                S = S | {(al.asname or al.name).split(".")[0]}
            return S
        if isinstance(s, ast.Delete):
            for t in s.targets:
                if isinstance(t, ast.Name):
                    self.load(t, S)
                    S = S - {t.id}
                else:
                    S = self.expr(t, S)
            return S
        if isinstance(s, ast.If):
            S = self.expr(s.test, S)
            tv = self.test_values(s.test)
            saved = dict(self.env)
            t_ok = f_ok = True
            if tv is not None and tv[0] in self.env:
                name, lits = tv
                vals = self.env[name]
                if not (vals & lits):
                    t_ok = False
                if not (vals - lits):
                    f_ok = False
            if t_ok:
                if tv is not None and tv[0] in self.env:
                    self.env[tv[0]] = self.env[tv[0]] & tv[1]
                elif tv is not None and tv[0] in self.locals:
                    # the test itself establishes the closed domain inside its true branch
                    self.env[tv[0]] = tv[1]
                to = self.block(s.body, S)
            else:
                to = None
            self.env = dict(saved)
            if f_ok:
                if tv is not None and tv[0] in self.env:
                    self.env[tv[0]] = self.env[tv[0]] - tv[1]
                fo = self.block(s.orelse, S)
            else:
                fo = None
            self.env = saved
            if tv is not None and tv[0] in self.env:
                # keep the env only if neither branch rebound the name (bind pops it)
                pass
            if to is None:
                return fo
            if fo is None:
                return to
            return to & fo
        if isinstance(s, (ast.For, ast.While)):
            if isinstance(s, ast.For):
                S = self.expr(s.iter, S)
                body_in = self.bind(s.target, S)
                if isinstance(s.target, ast.Name) and isinstance(s.iter, (ast.List, ast.Tuple)) and s.iter.elts and all(const_str(x) is not None for x in s.iter.elts):
                    self.env[s.target.id] = frozenset(const_str(x) for x in s.iter.elts)
            else:
                S = self.expr(s.test, S)
                body_in = S
            self.loops.append([])
            # one pass suffices for a must-analysis whose loop-carried set is
            # the entry set (names assigned in the body are not assumed at the head)
            out = self.block(s.body, body_in)
            brk = self.loops.pop()
            exit_S = S
            if isinstance(s, ast.While) and isinstance(s.test, ast.Constant) and s.test.value is True:
                exit_S = None
            if s.orelse:
                exit_S = self.block(s.orelse, exit_S) if exit_S is not None else None
            for b in brk:
                exit_S = b if exit_S is None else (exit_S & b)
            return exit_S
        if isinstance(s, ast.Break):
            self.loops[-1].append(S)
            return None
        if isinstance(s, ast.Continue):
            return None
        if isinstance(s, (ast.FunctionDef, ast.AsyncFunctionDef)):
            for d in s.decorator_list:
                S = self.expr(d, S)
            for d in s.args.defaults + [d for d in s.args.kw_defaults if d is not None]:
                S = self.expr(d, S)
            self.nested[s.name] = s
            S = S | {s.name}
            # escaping use (not only called)? then check at the definition point
            escapes = False
            for n in walk_no_nested(self.fn):
                if isinstance(n, ast.Name) and n.id == s.name and isinstance(n.ctx, ast.Load):
                    p = getattr(n, "_parent", None)
                    if not (isinstance(p, ast.Call) and p.func is n):
                        escapes = True
            uses = any(
                isinstance(n, ast.Call) and isinstance(n.func, ast.Name) and n.func.id == s.name
                for n in ast.walk(self.fn)
            )
            if escapes or not uses:
                self.check_nested_call(s.name, S)
            return S
        if isinstance(s, ast.ClassDef):
            return S | {s.name}
        if isinstance(s, ast.With):
            for it in s.items:
                S = self.expr(it.context_expr, S)
                if it.optional_vars is not None:
                    S = self.bind(it.optional_vars, S)
            return self.block(s.body, S)
        if isinstance(s, ast.Try):
            return self.stmt_try(s, S)
        raise AnalysisError("locals analysis: unsupported statement %s" % type(s).__name__)

    def stmt_try(self, s, S):
        # states before each top-level statement of the body
        before = []
        cur = S
        for b in s.body:
            before.append((b, cur))
            if cur is None:
                break
            cur = self.stmt(b, cur)
        body_out = cur
        if s.orelse and body_out is not None:
            body_out = self.block(s.orelse, body_out)
        outs = [body_out]
        for h in s.handlers:
            entry = None
            for b, Sb in before:
                if Sb is None:
                    continue
                if handler_matches(h, may_raise_stmt(b), self.is_subclass):
                    entry = Sb if entry is None else (entry & Sb)
            if entry is None:
                continue  # handler unreachable by the summary table
            if h.name:
                entry = entry | {h.name}
            outs.append(self.block(h.body, entry))
        res = None
        for o in outs:
            if o is not None:
                res = o if res is None else (res & o)
        if s.finalbody:
            fin_in = S if res is None else res
            # finally also runs on exceptional paths: analyse from the try entry
            self.block(s.finalbody, S)
            if res is not None:
                res = self.block(s.finalbody, res)
        return res
