"""Obligations, results, known-finding matching, evidence and replay files."""
import json
import os
import time
from collections import OrderedDict, Counter

from .core import AnalysisError

VERIF = os.path.dirname(os.path.dirname(os.path.abspath(__file__)))
KNOWN_FILE = os.path.join(VERIF, "known_findings.json")


class Ob(object):
    __slots__ = ("rule", "key", "where", "detail", "status", "by", "path")

    def __init__(self, rule, key, where, status, detail="", by="", path=None):
        self.rule = rule
        self.key = key
        self.where = where
        self.status = status  # ok | violation | spec-idiom
        self.detail = detail
        self.by = by
        self.path = path

    def as_dict(self):
        d = OrderedDict(rule=self.rule, instance=self.key, where=self.where, status=self.status)
        if self.by:
            d["discharged_by"] = self.by
        if self.detail:
            d["detail"] = self.detail
        if self.path:
            d["path"] = self.path
        return d


class Result(object):
    def __init__(self, pid):
        self.pid = pid
        self.obs = []
        self.info = OrderedDict()
        self.explanation = ""
        self.assumptions = []
        self.trusted = []
        self.rules = OrderedDict()  # rule id -> one-line statement
        self._seen = set()

    def rule(self, rid, text):
        self.rules[rid] = text

    def _add(self, ob):
        k = (ob.rule, ob.key, ob.status)
        if k in self._seen:
            return
        self._seen.add(k)
        self.obs.append(ob)

    def ok(self, rule, key, where, by="", detail=""):
        self._add(Ob(rule, key, where, "ok", detail, by))

    def bad(self, rule, key, where, detail="", path=None):
        self._add(Ob(rule, key, where, "violation", detail, "", path))

    def idiom(self, rule, key, where, detail=""):
        self._add(Ob(rule, key, where, "spec-idiom", detail))

    def check(self, cond, rule, key, where, detail="", by=""):
        if cond:
            self.ok(rule, key, where, by=by)
        else:
            self.bad(rule, key, where, detail)
        return cond

    def floor(self, rule, minimum):
        """Vacuity floor: the rule must have examined at least `minimum`
        instances, else the analysis (not the property) is broken."""
        n = sum(1 for o in self.obs if o.rule == rule)
        if n < minimum:
            # a rule that has already reported a violation which is not a listed known finding is not vacuous: its
            # later obligations usually could not be formed *because* the first one failed (the construct they would
            # examine has lost its shape).  The run then ends as a violation, not as a broken analysis.
            try:
                known = set(k["id"] for k in load_known().get("known", []))
            except Exception:
                known = set()
            if any(o.rule == rule and o.status == "violation" and ("%s/%s/%s" % (self.pid, o.rule, o.key)) not in known for o in self.obs):
                return n
            raise AnalysisError(
                "rule %s examined %d instance(s), below its vacuity floor %d "
                "(an anchor moved or an idiom is no longer recognised)" % (rule, n, minimum)
            )
        return n

    def count(self, rule=None):
        return sum(1 for o in self.obs if rule is None or o.rule == rule)

    def violations(self):
        return [o for o in self.obs if o.status == "violation"]

    def finding_id(self, ob):
        return "%s/%s/%s" % (self.pid, ob.rule, ob.key)


def load_known():
    if not os.path.exists(KNOWN_FILE):
        return {"known": [], "fixed": []}
    with open(KNOWN_FILE) as f:
        return json.load(f)


def finish(res, tier, t0, repo_root, write=True, quiet=False, extra_cov=None):
    """Print the report, match known findings, write evidence and replay files.
    Returns the exit code (0/1)."""
    known = {k["id"]: k for k in load_known().get("known", []) if k.get("property") == res.pid}
    out = []
    vio = res.violations()
    new = []
    matched = []
    for ob in vio:
        fid = res.finding_id(ob)
        if fid in known:
            matched.append((fid, ob))
        else:
            new.append((fid, ob))
    per_rule = Counter(o.rule for o in res.obs)
    ok_rule = Counter(o.rule for o in res.obs if o.status == "ok")
    idiom_rule = Counter(o.rule for o in res.obs if o.status == "spec-idiom")
    if not quiet:
        print("== %s (%s tier) on %s" % (res.pid, tier, repo_root))
        for rid, text in res.rules.items():
            print(
                "  rule %-8s %3d instance(s), %3d discharged%s : %s"
                % (
                    rid,
                    per_rule.get(rid, 0),
                    ok_rule.get(rid, 0),
                    (", %d spec-idiom" % idiom_rule[rid]) if idiom_rule.get(rid) else "",
                    text,
                )
            )
        for k, v in res.info.items():
            if isinstance(v, (int, float, str)):
                print("  %s: %s" % (k, v))
    exit_code = 0
    replay_dir = os.path.join(VERIF, "evidence", "replay")
    for fid, ob in matched:
        print("KNOWN-FINDING: property=%s %s [%s] %s" % (res.pid, fid, ob.where, known[fid].get("what", ob.detail)))
    for fid, ob in new:
        exit_code = 1
        safe = "".join(c if c.isalnum() or c in "._-" else "_" for c in fid)[:150]
        rp = os.path.join(replay_dir, safe + ".json")
        if write:
            os.makedirs(replay_dir, exist_ok=True)
            with open(rp, "w") as f:
                json.dump(
                    OrderedDict(
                        property=res.pid,
                        finding=fid,
                        rule=ob.rule,
                        rule_text=res.rules.get(ob.rule, ""),
                        instance=ob.key,
                        where=ob.where,
                        detail=ob.detail,
                        path=ob.path,
                        repo=repo_root,
                    ),
                    f,
                    indent=1,
                )
        print("  finding %s at %s: %s" % (fid, ob.where, ob.detail))
        if ob.path:
            print("    path: %s" % (" > ".join(ob.path) if isinstance(ob.path, (list, tuple)) else ob.path))
        print("VIOLATION property=%s replay=%s" % (res.pid, rp))
    wall = time.time() - t0
    if write:
        samples = []
        seen_rules = set()
        for o in res.obs:
            if o.rule not in seen_rules or o.status != "ok":
                seen_rules.add(o.rule)
                samples.append(o.as_dict())
            if len(samples) >= 40:
                break
        n_ob = len(res.obs)
        n_ok = sum(1 for o in res.obs if o.status == "ok")
        cov = OrderedDict(
            explanation=res.explanation
            + " This check decides the named structural clauses from /repo's source; it does not decide the behavioural property itself.",
            rule="; ".join("%s: %s" % kv for kv in res.rules.items()),
            evaluations=n_ob,
            distinct_nontrivial=len(set((o.rule, o.key) for o in res.obs)),
            obligations=n_ob,
            discharged=n_ok,
            spec_idiom_suppressed=sum(1 for o in res.obs if o.status == "spec-idiom"),
            per_rule_instances=OrderedDict((r, per_rule.get(r, 0)) for r in res.rules),
            known_findings_matched=[fid for fid, _ in matched],
            new_findings=[fid for fid, _ in new],
            samples=samples,
            trusted_base=res.trusted,
            checker_cmd="/venv/bin/python -m vcheck %s --tier %s" % (res.pid, tier),
            exhaustive=False,
        )
        for k, v in res.info.items():
            cov[k] = v
        if extra_cov:
            cov.update(extra_cov)
        ev = OrderedDict(
            property_id=res.pid,
            tier=tier,
            seed=int(os.environ.get("VERIF_SEED", "0") or 0),
            level="other",
            coverage=cov,
            assumptions=res.assumptions,
            wall_s=round(wall, 3),
            violations=len(new),
        )
        os.makedirs(os.path.join(VERIF, "evidence"), exist_ok=True)
        with open(os.path.join(VERIF, "evidence", res.pid + ".json"), "w") as f:
            json.dump(ev, f, indent=1, default=str)
    if not quiet:
        print(
            "  => %d obligations, %d discharged, %d known finding(s), %d new violation(s) [%.2fs]"
            % (len(res.obs), sum(1 for o in res.obs if o.status == "ok"), len(matched), len(new), wall)
        )
    return exit_code
