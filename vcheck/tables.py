"""E6: table extractors (fixeddict declarations, exception classes, raise sites)."""
import ast
import string
from collections import OrderedDict, namedtuple

from .core import AnalysisError, const_str, dotted, norm, class_methods

FixedDict = namedtuple("FixedDict", "var name mod node entries")
FDEntry = namedtuple("FDEntry", "name enum formatter formatter_node node")


def fixeddicts(repo):
    """All `X = fixeddict("Y", ...)` declarations anywhere in the package
    (module level or nested), keyed by variable name X per module."""
    out = []
    for m in repo.modules.values():
        for n in ast.walk(m.tree):
            if isinstance(n, ast.Assign) and isinstance(n.value, ast.Call) and dotted(n.value.func) == "fixeddict":
                call = n.value
                if not call.args or const_str(call.args[0]) is None:
                    continue
                var = n.targets[0].id if isinstance(n.targets[0], ast.Name) else None
                entries = OrderedDict()
                for a in call.args[1:]:
                    if const_str(a) is not None:
                        entries[const_str(a)] = FDEntry(const_str(a), None, None, None, a)
                    elif isinstance(a, ast.Call) and dotted(a.func) == "Entry" and a.args and const_str(a.args[0]):
                        enum = fmt = fmt_node = None
                        for kw in a.keywords:
                            if kw.arg == "enum":
                                enum = dotted(kw.value)
                            elif kw.arg == "formatter":
                                fmt_node = kw.value
                                fmt = dotted(kw.value.func) if isinstance(kw.value, ast.Call) else dotted(kw.value)
                        entries[const_str(a.args[0])] = FDEntry(const_str(a.args[0]), enum, fmt, fmt_node, a)
                    else:
                        raise AnalysisError("fixeddict %s: unrecognised entry %s" % (const_str(call.args[0]), norm(a)))
                out.append(FixedDict(var, const_str(call.args[0]), m, n, entries))
    return out


def fixeddict_by_var(repo, modspec, var):
    m = repo.mod(modspec)
    for fd in fixeddicts(repo):
        if fd.mod is m and fd.var == var:
            return fd
    raise AnalysisError("anchor vanished: fixeddict %s in %s" % (var, modspec))


# ---------------------------------------------------------------------------
# exception classes
# ---------------------------------------------------------------------------
class ExcClass(object):
    def __init__(self, mod, node):
        self.mod = mod
        self.node = node
        self.name = node.name
        self.bases = [dotted(b) for b in node.bases]
        self.methods = class_methods(node)

    def __repr__(self):
        return "<exc %s>" % self.name


class ExcTable(object):
    def __init__(self, repo, modspec="decoder.exceptions", root="ConformanceError"):
        self.repo = repo
        self.mod = repo.mod(modspec)
        self.root = root
        self.classes = OrderedDict()
        for name, c in self.mod.classes.items():
            self.classes[name] = ExcClass(self.mod, c)
        if root not in self.classes:
            raise AnalysisError("anchor vanished: %s:%s" % (modspec, root))

    def is_sub(self, name, root=None):
        root = root or self.root
        seen = set()
        todo = [name]
        while todo:
            n = todo.pop()
            if n == root:
                return True
            if n in seen or n not in self.classes:
                continue
            seen.add(n)
            todo.extend(b for b in self.classes[n].bases if b)
        return False

    def subclasses(self):
        return [c for n, c in self.classes.items() if n != self.root and self.is_sub(n)]

    def mro(self, name):
        out = []
        todo = [name]
        while todo:
            n = todo.pop(0)
            if n in self.classes and n not in out:
                out.append(n)
                todo.extend(b for b in self.classes[n].bases if b)
        return out

    def find_method(self, name, meth):
        for n in self.mro(name):
            if meth in self.classes[n].methods:
                return n, self.classes[n].methods[meth]
        return None, None

    def init_arity(self, name):
        """(min positional, max positional or None for *args) of the constructor."""
        owner, init = self.find_method(name, "__init__")
        if init is None:
            return 0, None  # BaseException accepts anything
        a = init.args
        n = len(a.args) - 1
        nmin = n - len(a.defaults)
        return nmin, (None if a.vararg else n)

    def init_params(self, name):
        owner, init = self.find_method(name, "__init__")
        if init is None:
            return []
        return [x.arg for x in init.args.args[1:]]

    def attrs_stored(self, name):
        """self.x stored on every normal path of __init__ (must-set)."""
        owner, init = self.find_method(name, "__init__")
        out = set()
        if init is None:
            return out
        # straight-line constructors in this code base; accept stores at the
        # top level of the body only (a store under a branch does not count)
        for s in init.body:
            if isinstance(s, ast.Assign):
                for t in s.targets:
                    if isinstance(t, ast.Attribute) and isinstance(t.value, ast.Name) and t.value.id == "self":
                        out.add(t.attr)
        return out

    def attr_param(self, name):
        """attr -> constructor parameter index it is stored from (direct copies)."""
        owner, init = self.find_method(name, "__init__")
        out = {}
        if init is None:
            return out
        params = [x.arg for x in init.args.args[1:]]
        for s in init.body:
            if isinstance(s, ast.Assign) and isinstance(s.value, ast.Name) and s.value.id in params:
                for t in s.targets:
                    if isinstance(t, ast.Attribute) and isinstance(t.value, ast.Name) and t.value.id == "self":
                        out[t.attr] = params.index(s.value.id)
        return out


_FMT = string.Formatter()


def format_fields(s):
    """(n auto-numbered, set explicit indices, set named) of a format string;
    raises ValueError on a malformed template."""
    auto = 0
    explicit = set()
    named = set()
    for lit, field, spec, conv in _FMT.parse(s):
        if field is None:
            continue
        head = field.split(".")[0].split("[")[0]
        if head == "":
            auto += 1
        elif head.isdigit():
            explicit.add(int(head))
        else:
            named.add(head)
        # nested fields inside the spec, e.g. {:{}d}
        if spec:
            a2, e2, n2 = format_fields(spec)
            auto += a2
            explicit |= e2
            named |= n2
    return auto, explicit, named


def format_calls(fn):
    """yield (call node, template string) for "<literal>".format(...) and
    dedent("<literal>").format(...) inside fn."""
    for n in ast.walk(fn):
        if isinstance(n, ast.Call) and isinstance(n.func, ast.Attribute) and n.func.attr == "format":
            base = n.func.value
            if isinstance(base, ast.Call) and base.args and const_str(base.args[0]) is not None and dotted(base.func) in ("dedent", "textwrap.dedent"):
                base = base.args[0]
            s = const_str(base)
            if s is not None:
                yield n, s
