"""E3: name/import-resolved call graph over the repository.

No type checker is available, so resolution is by name through the import
maps (adequate: the analysed code is function-oriented).  Over-approximations,
all on the safe side for *reachability* rules:
  * a loaded Name that resolves to a function is an edge (function values
    stored in tables, e.g. SYNTHESIS_LIFTING_FUNCTION_TYPES, functools.partial);
  * instantiating / referencing a class reaches every method of the class and
    of its in-repo base classes;
  * `self.m()` resolves within the class hierarchy; `obj.m()` on an unknown
    object resolves to every in-repo method named m of a *reached* class.
"""
import ast
from collections import OrderedDict, defaultdict

from .core import AnalysisError, dotted, walk_no_nested, class_methods


class FuncRef(object):
    __slots__ = ("mod", "qual", "node", "cls")

    def __init__(self, mod, qual, node, cls=None):
        self.mod = mod
        self.qual = qual
        self.node = node
        self.cls = cls

    @property
    def id(self):
        return "%s:%s" % (self.mod.name, self.qual)

    def __repr__(self):
        return "<%s>" % self.id


class CallGraph(object):
    def __init__(self, repo):
        self.repo = repo
        self.funcs = OrderedDict()  # id -> FuncRef
        self.by_node = {}
        self.methods_by_name = defaultdict(list)
        self.class_refs = {}  # (modname, clsname) -> [FuncRef]
        for m in repo.modules.values():
            for name, fn in m.funcs.items():
                self._add(FuncRef(m, name, fn))
            for cname, cls in m.classes.items():
                lst = []
                for mname, fn in class_methods(cls).items():
                    fr = FuncRef(m, "%s.%s" % (cname, mname), fn, cls)
                    self._add(fr)
                    lst.append(fr)
                    self.methods_by_name[mname].append(fr)
                self.class_refs[(m.name, cname)] = lst
        self._edges = {}

    def _add(self, fr):
        self.funcs[fr.id] = fr
        self.by_node[id(fr.node)] = fr
        # nested defs belong to their outer function (walked with it)

    def get(self, spec):
        if not spec.startswith(self.repo.PKG):
            spec = self.repo.PKG + "." + spec
        fr = self.funcs.get(spec)
        if fr is None:
            raise AnalysisError("anchor vanished: function %s" % spec)
        return fr

    def class_closure(self, modname, cname, seen=None):
        """methods of the class and its in-repo bases."""
        seen = seen if seen is not None else set()
        if (modname, cname) in seen:
            return []
        seen.add((modname, cname))
        out = list(self.class_refs.get((modname, cname), []))
        m = self.repo.modules.get(modname)
        cls = m.classes.get(cname) if m else None
        if cls is not None:
            for b in cls.bases:
                sym = self.repo.resolve_expr(modname, b)
                if sym is not None and sym.kind == "class":
                    out += self.class_closure(sym.mod, sym.name, seen)
        return out

    def edges(self, fr):
        if fr.id in self._edges:
            return self._edges[fr.id]
        out = OrderedDict()
        m = fr.mod
        # decorators (and argument defaults) of the function itself run at
        # definition time, not when it is called
        own_def_time = set()
        for d in fr.node.decorator_list + fr.node.args.defaults + [x for x in fr.node.args.kw_defaults if x is not None]:
            for x in ast.walk(d):
                own_def_time.add(id(x))
        for n in ast.walk(fr.node):
            if id(n) in own_def_time:
                continue
            if isinstance(n, ast.Name) and isinstance(n.ctx, ast.Load):
                sym = self.repo.resolve(m.name, n.id)
                self._sym_edges(sym, out)
            elif isinstance(n, ast.Attribute) and isinstance(n.ctx, ast.Load):
                if isinstance(n.value, ast.Name) and n.value.id in ("self", "cls") and fr.cls is not None:
                    for c in self.class_closure(m.name, fr.cls.name):
                        if c.qual.split(".")[-1] == n.attr:
                            out[c.id] = c
                    # subclasses overriding it
                    for c in self.methods_by_name.get(n.attr, []):
                        if c.cls is not None and self._is_subclass(c, m.name, fr.cls.name):
                            out[c.id] = c
                else:
                    sym = self.repo.resolve_expr(m.name, n)
                    if sym is not None and sym.kind in ("func", "class"):
                        self._sym_edges(sym, out)
                    elif sym is None:
                        par = getattr(n, "_parent", None)
                        if isinstance(par, ast.Call) and par.func is n:
                            for c in self.methods_by_name.get(n.attr, []):
                                out.setdefault("?" + c.id, c)
        self._edges[fr.id] = out
        return out

    def _is_subclass(self, cref, modname, cname):
        return any(
            x.cls is not None and x.mod.name == modname and x.cls.name == cname
            for x in self.class_closure(cref.mod.name, cref.cls.name)
        )

    def _sym_edges(self, sym, out):
        if sym is None:
            return
        if sym.kind == "func":
            fid = "%s:%s" % (sym.mod, sym.name)
            if fid in self.funcs:
                out[fid] = self.funcs[fid]
        elif sym.kind == "class":
            for c in self.class_closure(sym.mod, sym.name):
                out[c.id] = c

    def reachable(self, roots, follow_unknown_methods=True):
        """ids reachable from root specs.  Edges through unresolved `obj.m()`
        are followed only into classes already reached."""
        seen = OrderedDict()
        reached_classes = set()
        work = [self.get(r) for r in roots]
        deferred = []
        while work or deferred:
            if not work:
                # retry deferred unknown-method edges
                again = []
                progressed = False
                for c in deferred:
                    if (c.mod.name, c.cls.name) in reached_classes and c.id not in seen:
                        work.append(c)
                        progressed = True
                    elif c.id not in seen:
                        again.append(c)
                deferred = again
                if not progressed:
                    break
                continue
            fr = work.pop()
            if fr.id in seen:
                continue
            seen[fr.id] = fr
            if fr.cls is not None:
                reached_classes.add((fr.mod.name, fr.cls.name))
            for eid, c in self.edges(fr).items():
                if eid.startswith("?"):
                    if follow_unknown_methods:
                        deferred.append(c)
                elif c.id not in seen:
                    work.append(c)
        return seen
