"""E7: reference engine for the symbol_re pattern language.

Independent of the repository's implementation: own tokenizer, own parser
(conventional precedence: postfix > concatenation > '|'), NFA construction
driven by a *gadget table* (textbook Thompson by default; C18 passes the
gadgets it extracted from NFA.from_ast to model what the repository builds),
subset construction, and exact language comparison on product automata.
"""
import re
from collections import OrderedDict, deque

from .core import AnalysisError

TOK = re.compile(r"\s*(?:(\w+)|([.])|([$])|([?*+])|([|])|([()]))")
OTHER = "<other>"  # stands for every symbol not named in the pattern(s)


def tokenize(s):
    s = s.replace("\n", " ").replace("\r", " ")
    out = []
    pos = 0
    while pos < len(s):
        if s[pos:].strip() == "":
            break
        m = TOK.match(s, pos)
        if not m:
            raise ValueError("bad pattern text at %d: %r" % (pos, s[pos : pos + 20]))
        out.append(m.group(m.lastindex))
        pos = m.end()
    return out


def parse(pattern):
    """AST: ('eps',) ('sym',s) ('any',) ('end',) ('cat',a,b) ('alt',a,b) ('star',a)"""
    tokens = tokenize(pattern)
    pos = [0]

    def peek():
        return tokens[pos[0]] if pos[0] < len(tokens) else None

    def union():
        left = concat()
        while peek() == "|":
            pos[0] += 1
            left = ("alt", left, concat())
        return left

    def concat():
        items = []
        while peek() is not None and peek() not in ("|", ")"):
            items.append(postfix())
        if not items:
            return ("eps",)
        out = items[-1]
        for i in reversed(items[:-1]):
            out = ("cat", i, out)
        return out

    def postfix():
        t = peek()
        pos[0] += 1
        if t == "(":
            a = union()
            if peek() != ")":
                raise ValueError("unmatched parenthesis")
            pos[0] += 1
        elif t == ".":
            a = ("any",)
        elif t == "$":
            a = ("end",)
        elif t in ("?", "*", "+", ")"):
            raise ValueError("unexpected %r" % t)
        else:
            a = ("sym", t)
        n = 0
        while peek() in ("?", "*", "+"):
            m = peek()
            pos[0] += 1
            n += 1
            if n > 1:
                raise ValueError("multiple modifiers")
            a = {"?": ("alt", a, ("eps",)), "*": ("star", a), "+": ("cat", a, ("star", a))}[m]
        return a

    r = union()
    if pos[0] != len(tokens):
        raise ValueError("trailing tokens / unmatched parenthesis")
    return r


def symbols_of(ast_):
    out = set()
    stack = [ast_]
    while stack:
        a = stack.pop()
        if a[0] == "sym":
            out.add(a[1])
        stack.extend(x for x in a[1:] if isinstance(x, tuple))
    return out


# ---------------------------------------------------------------------------
# gadget-driven NFA construction
# ---------------------------------------------------------------------------
# A gadget: dict(new=<n fresh nodes>, subs=[names of sub-expressions in build order],
#                edges=[(src, dst, label)], start=ref, final=ref)
# refs: ("new", i) | ("sub", name, "start"|"final"); label None = epsilon,
# "SYM" = the symbol of the AST node.
TEXTBOOK = {
    "eps": dict(new=1, subs=[], edges=[], start=("new", 0), final=("new", 0)),
    "sym": dict(new=2, subs=[], edges=[(("new", 0), ("new", 1), "SYM")], start=("new", 0), final=("new", 1)),
    "cat": dict(
        new=0,
        subs=["a", "b"],
        edges=[(("sub", "a", "final"), ("sub", "b", "start"), None)],
        start=("sub", "a", "start"),
        final=("sub", "b", "final"),
    ),
    "alt": dict(
        new=2,
        subs=["a", "b"],
        edges=[
            (("new", 0), ("sub", "a", "start"), None),
            (("new", 0), ("sub", "b", "start"), None),
            (("sub", "a", "final"), ("new", 1), None),
            (("sub", "b", "final"), ("new", 1), None),
        ],
        start=("new", 0),
        final=("new", 1),
    ),
    "star": dict(
        new=2,
        subs=["a"],
        edges=[
            (("new", 0), ("new", 1), None),
            (("new", 0), ("sub", "a", "start"), None),
            (("sub", "a", "final"), ("sub", "a", "start"), None),
            (("sub", "a", "final"), ("new", 1), None),
        ],
        start=("new", 0),
        final=("new", 1),
    ),
}


class NFA(object):
    def __init__(self):
        self.n = 0
        self.eps = {}
        self.tr = {}
        self.start = None
        self.final = None

    def new(self):
        self.n += 1
        self.eps[self.n] = set()
        self.tr[self.n] = []
        return self.n

    def closure(self, S):
        S = set(S)
        todo = list(S)
        while todo:
            x = todo.pop()
            for y in self.eps[x]:
                if y not in S:
                    S.add(y)
                    todo.append(y)
        return frozenset(S)


def build(ast_, gadgets=TEXTBOOK, bidirectional_eps=False):
    nfa = NFA()

    def e(a, b, label):
        if label is None:
            nfa.eps[a].add(b)
            if bidirectional_eps:
                nfa.eps[b].add(a)
        else:
            nfa.tr[a].append((label, b))

    def rec(a):
        kind = a[0]
        gk = "sym" if kind in ("sym", "any", "end") else kind
        g = gadgets[gk]
        fresh = [nfa.new() for _ in range(g["new"])]
        subs = {}
        operands = {"a": a[1] if len(a) > 1 else None, "b": a[2] if len(a) > 2 else None}
        for name in g["subs"]:
            subs[name] = rec(operands[name])

        def ref(r):
            if r[0] == "new":
                return fresh[r[1]]
            return subs[r[1]][0 if r[2] == "start" else 1]

        for src, dst, label in g["edges"]:
            lab = label
            if label == "SYM":
                lab = a[1] if kind == "sym" else kind  # 'any' / 'end'
            e(ref(src), ref(dst), lab)
        return ref(g["start"]), ref(g["final"])

    nfa.start, nfa.final = rec(ast_)
    return nfa


class DFA(object):
    def __init__(self, alphabet):
        self.alphabet = list(alphabet)
        self.trans = []  # state -> {sym: state}
        self.accept = []
        self.start = 0


def to_dfa(nfa, alphabet):
    """Subset construction following the matcher's semantics: closure, then a
    step on (symbol or wildcard), dead when the step set is empty; accepting if
    the final node is in the closure or an '$' edge leaves the closure."""
    d = DFA(alphabet)
    index = {}
    order = []

    def get(S):
        if S not in index:
            index[S] = len(order)
            order.append(S)
            d.trans.append({})
            d.accept.append(
                nfa.final in S or any(lbl == "end" for x in S for (lbl, _) in nfa.tr[x])
            )
        return index[S]

    start = nfa.closure({nfa.start})
    get(start)
    i = 0
    while i < len(order):
        S = order[i]
        for a in alphabet:
            T = set()
            for x in S:
                for lbl, y in nfa.tr[x]:
                    if lbl == a or lbl == "any":
                        T.add(y)
            if T:
                d.trans[i][a] = get(nfa.closure(T))
        i += 1
        if len(order) > 20000:
            raise AnalysisError("regex DFA too large")
    return d


def compare(d1, d2):
    """Exact language comparison.  Returns (only_in_1, only_in_2): shortest
    witness words (tuples) or None."""
    assert d1.alphabet == d2.alphabet
    DEAD = -1
    seen = {(0, 0): ()}
    q = deque([(0, 0)])
    w1 = w2 = None
    while q:
        a, b = q.popleft()
        w = seen[(a, b)]
        acc1 = a != DEAD and d1.accept[a]
        acc2 = b != DEAD and d2.accept[b]
        if acc1 and not acc2 and w1 is None:
            w1 = w
        if acc2 and not acc1 and w2 is None:
            w2 = w
        if w1 is not None and w2 is not None:
            break
        for s in d1.alphabet:
            na = d1.trans[a].get(s, DEAD) if a != DEAD else DEAD
            nb = d2.trans[b].get(s, DEAD) if b != DEAD else DEAD
            if na == DEAD and nb == DEAD:
                continue
            if (na, nb) not in seen:
                seen[(na, nb)] = w + (s,)
                q.append((na, nb))
    return w1, w2


def language(pattern_or_ast, alphabet=None, gadgets=TEXTBOOK, bidirectional_eps=False):
    a = parse(pattern_or_ast) if isinstance(pattern_or_ast, str) else pattern_or_ast
    if alphabet is None:
        alphabet = sorted(symbols_of(a)) + [OTHER]
    return to_dfa(build(a, gadgets, bidirectional_eps), alphabet)


def live_states(d):
    """states from which an accepting state is reachable."""
    rev = {i: set() for i in range(len(d.trans))}
    for i, t in enumerate(d.trans):
        for s, j in t.items():
            rev[j].add(i)
    live = set(i for i, a in enumerate(d.accept) if a)
    todo = list(live)
    while todo:
        x = todo.pop()
        for y in rev[x]:
            if y not in live:
                live.add(y)
                todo.append(y)
    return live


def first_set(d):
    """symbols that can start an accepted word."""
    live = live_states(d)
    return set(s for s, j in d.trans[0].items() if j in live)


def nullable(d):
    return d.accept[0]


def last_symbols(d):
    """symbols on which an accepted word can end."""
    live = live_states(d)
    # reachable states
    reach = {0}
    todo = [0]
    while todo:
        x = todo.pop()
        for s, j in d.trans[x].items():
            if j not in reach:
                reach.add(j)
                todo.append(j)
    out = set()
    for i in reach:
        for s, j in d.trans[i].items():
            if d.accept[j]:
                out.add(s)
    return out


def accepts(d, word):
    st = 0
    for s in word:
        s = s if s in d.alphabet else OTHER
        if s not in d.trans[st]:
            return False
        st = d.trans[st][s]
    return d.accept[st]
