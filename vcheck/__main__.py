"""CLI: python -m vcheck <property id> --tier quick|thorough [--repo PATH]

exit 0: every obligation discharged (or covered by a listed known finding)
exit 1: VIOLATION line(s) printed
exit 2: ANALYSIS-ERROR (the analysis is broken; nothing is claimed)
"""
import argparse
import importlib
import json
import os
import sys
import time
import traceback

from .core import AnalysisError, Repo
from . import report


def run_property(pid, tier, repo_root, write=True, quiet=False):
    t0 = time.time()
    mod = importlib.import_module("vcheck.props." + pid.lower())
    repo = Repo(repo_root)
    res = mod.check(repo, tier)
    extra = None
    if tier == "thorough" and os.environ.get("VCHECK_NO_SELFTEST") != "1":
        from . import selftest

        extra = selftest.run_for(pid, repo_root, quiet=quiet)
    return report.finish(res, tier, t0, repo.root, write=write, quiet=quiet, extra_cov=extra)


def main(argv=None):
    ap = argparse.ArgumentParser(prog="vcheck")
    ap.add_argument("property", nargs="?")
    ap.add_argument("--tier", default=os.environ.get("VERIF_TIER") or "quick", choices=["quick", "thorough"])
    ap.add_argument("--repo", default="/repo")
    ap.add_argument("--replay")
    ap.add_argument("--no-write", action="store_true")
    a = ap.parse_args(argv)
    try:
        if a.replay:
            with open(a.replay) as f:
                rp = json.load(f)
            print("replaying finding %s (rule: %s)" % (rp["finding"], rp.get("rule_text", "")))
            return run_property(rp["property"], "quick", a.repo, write=False)
        if not a.property:
            ap.error("property id required")
        return run_property(a.property.upper(), a.tier, a.repo, write=not a.no_write)
    except AnalysisError as e:
        print("ANALYSIS-ERROR property=%s %s" % (a.property, e))
        return 2
    except Exception:
        traceback.print_exc()
        print("ANALYSIS-ERROR property=%s internal error in the checker (traceback above)" % a.property)
        return 2


if __name__ == "__main__":
    sys.exit(main())
