"""vcheck: repository-specific static analysis for bbc/vc2_conformance.

Every check parses /repo's current working tree (ast / tokenize / csv) and
decides a structural rule from the shape of the code.  Nothing in /repo is
imported or executed.  See /verif/DESIGN.md.
"""
