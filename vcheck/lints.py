"""Two exact, repository-wide bug-pattern rules with zero expected instances
(each keeps a positive fixture):

swapped arguments     a call passes the local named like parameter B in the
                      position of parameter A *and* the local named like A in
                      the position of B (e.g. slice_bytes(state, sy, sx) for
                      def slice_bytes(state, sx, sy));
stale lower-bound     `if v < K: raise ...` on a local v that is decremented
guard                 later in the same block: the guard no longer holds for
                      the value actually used.
presence by           whether a dictionary entry is *present* is decided by the
truthiness            truthiness of d.get(k): `d.get(k) or default`, `if d.get(k):`,
                      `v = d.get(k) ... if not v:` -- an entry holding 0, False,
                      "" or an empty container is then treated as absent.  Two
                      reviewed instances on the tree are sanctioned by name.
shared object in a    a loop stores one and the same freshly built mutable object
loop                  into a container on every iteration (zero on the reviewed tree).
split unpacking       a, b = text.split(...): arity depends on the text (zero on the tree).
last-iteration leak   a name bound only inside a loop body is read after the loop (zero on
                      the reviewed tree).
length difference     d['..._length'] = a - b without a dominating `if a < b: raise`
                      (4 guarded stores on the reviewed tree).
dropped forwarding    f(p=...) calls g, g has a defaulted parameter also named
                      p, and the call does not bind it: g's default silently
                      replaces the caller's value (23 forwarding calls on the
                      reviewed tree, none dropped).
"""
import ast

from .core import AnalysisError, dotted, short


def swapped_arguments(repo, m):
    out = []
    for fn in [f for f in ast.walk(m.tree) if isinstance(f, (ast.FunctionDef, ast.AsyncFunctionDef))]:
        for c in ast.walk(fn):
            if not (isinstance(c, ast.Call) and isinstance(c.func, ast.Name)):
                continue
            tgt = repo.resolve(m.name, c.func.id)
            if tgt is None or getattr(tgt, "kind", None) != "func" or tgt.node is None:
                continue
            params = [a.arg for a in tgt.node.args.posonlyargs + tgt.node.args.args]
            bound = {}
            for i, a in enumerate(c.args):
                if isinstance(a, ast.Starred):
                    break
                if i < len(params) and isinstance(a, ast.Name):
                    bound[params[i]] = a.id
            for k in c.keywords:
                if k.arg is not None and isinstance(k.value, ast.Name):
                    bound[k.arg] = k.value.id
            for p, a in bound.items():
                if a != p and a in bound and bound[a] == p and p < a:
                    out.append((fn, c, "passes `%s` as parameter %s and `%s` as parameter %s of %s" % (a, p, p, a, tgt.name)))
    return out


def dropped_forwarding(repo, m):
    """(function, call, reason) for every call g(...) inside a function f where f has a parameter p, the
    resolved callee g has a *defaulted* parameter also named p, and the call does not bind g's p at all:
    the caller's request silently falls back to g's default.  (count of calls that do forward such a
    parameter is returned as well, for the vacuity floor)"""
    out, forwarded = [], 0
    for fn in [f for f in ast.walk(m.tree) if isinstance(f, (ast.FunctionDef, ast.AsyncFunctionDef))]:
        mine = set(a.arg for a in fn.args.posonlyargs + fn.args.args + fn.args.kwonlyargs)
        for c in ast.walk(fn):
            if not (isinstance(c, ast.Call) and isinstance(c.func, ast.Name)):
                continue
            tgt = repo.resolve(m.name, c.func.id)
            if tgt is None or getattr(tgt, "kind", None) != "func" or tgt.node is None or tgt.node is fn:
                continue
            if any(isinstance(a, ast.Starred) for a in c.args) or any(k.arg is None for k in c.keywords):
                continue
            ta = tgt.node.args
            pos = [a.arg for a in ta.posonlyargs + ta.args]
            ndef = len(ta.defaults)
            defaulted = set(pos[len(pos) - ndef:] if ndef else []) | set(a.arg for a, d in zip(ta.kwonlyargs, ta.kw_defaults) if d is not None)
            bound = set(pos[: len(c.args)]) | set(k.arg for k in c.keywords)
            for p in sorted(defaulted & mine):
                if p in bound:
                    forwarded += 1
                else:
                    out.append((fn, c, "call of %s does not pass on `%s` (a parameter of both; %s's default is used instead of the caller's value)" % (tgt.name, p, tgt.name)))
    return out, forwarded


MUTABLE_CTORS = {"deepcopy", "copy", "dict", "list", "set", "copy.deepcopy", "copy.copy", "defaultdict", "OrderedDict", "bytearray"}


def _mutable_expr(e):
    if isinstance(e, (ast.Dict, ast.List, ast.Set, ast.ListComp, ast.DictComp, ast.SetComp)):
        return True
    if isinstance(e, ast.Call):
        d = dotted(e.func) or ""
        return d in MUTABLE_CTORS or (d[:1].isupper() and "." not in d)
    return False


def shared_object_in_loop(m, repo=None):
    """(function, node, reason) where a loop stores -- d[k] = v, l.append(v), ... -- one and the same mutable object
    into a container on every iteration: v is a local not rebound inside the loop, every definition of which builds a
    fresh mutable object (literal, comprehension, copy/deepcopy, dict()/list(), a Capitalised constructor).  The
    containers then alias each other: filling in one (as the automatic field filling does) changes all."""
    out = []
    for fn in [f for f in ast.walk(m.tree) if isinstance(f, (ast.FunctionDef, ast.AsyncFunctionDef))]:
        for loop in [l for l in ast.walk(fn) if isinstance(l, (ast.For, ast.While))]:
            bound_in_loop = {x.id for x in ast.walk(loop) if isinstance(x, ast.Name) and isinstance(x.ctx, ast.Store)}
            for s in ast.walk(loop):
                v = None
                if isinstance(s, ast.Assign) and any(isinstance(t, ast.Subscript) for t in s.targets) and isinstance(s.value, ast.Name):
                    v = s.value.id
                elif isinstance(s, ast.Call) and isinstance(s.func, ast.Attribute) and s.func.attr in ("append", "insert", "add", "setdefault") and s.args and isinstance(s.args[-1], ast.Name):
                    v = s.args[-1].id
                cands = [v] if v is not None else []
                if isinstance(s, ast.Call) and (dotted(s.func) or "")[:1].isupper() and "." not in (dotted(s.func) or "."):
                    # a constructor call building an element of the output: Ctor(field=v, ...)
                    cands += [a.id for a in s.args if isinstance(a, ast.Name)] + [k.value.id for k in s.keywords if isinstance(k.value, ast.Name)]
                for v in cands:
                  if v in bound_in_loop:
                    continue
                  defs = [a.value for a in ast.walk(fn) if isinstance(a, ast.Assign) and any(isinstance(t, ast.Name) and t.id == v for t in a.targets)]
                  if defs and all(_mutable_expr(d) or _returns_fresh_mutable(repo, m, d) for d in defs):
                    out.append((fn, s, "the one object `%s` (= %s) is stored on every iteration of the loop at line %d: the containers share it" % (v, short(defs[0], 40), loop.lineno)))
    # one report per (function, stored name)
    seen, uniq = set(), []
    for fn, s, why in out:
        k = (fn.name, why.split("`")[1])
        if k not in seen:
            seen.add(k)
            uniq.append((fn, s, why))
    return uniq


def _returns_fresh_mutable(repo, m, e):
    """e is a call of a repository function every return of which builds a fresh mutable object"""
    if repo is None or not (isinstance(e, ast.Call) and isinstance(e.func, ast.Name)):
        return False
    sym = repo.resolve(m.name, e.func.id)
    if sym is None or getattr(sym, "kind", None) != "func" or sym.node is None:
        return False
    rets = [r.value for r in ast.walk(sym.node) if isinstance(r, ast.Return)]
    return bool(rets) and all(r is not None and _mutable_expr(r) for r in rets)


def split_unpacking(m):
    """(function, node, reason): `a, b = text.split(sep, n)` -- the number of pieces depends on the text, so the unpacking
    raises ValueError when the separator occurs fewer (or more) times than assumed; str.partition always returns three."""
    out = []
    for fn in [f for f in ast.walk(m.tree) if isinstance(f, (ast.FunctionDef, ast.AsyncFunctionDef))]:
        for n in ast.walk(fn):
            if isinstance(n, ast.Assign) and isinstance(n.targets[0], (ast.Tuple, ast.List)) and not any(isinstance(e, ast.Starred) for e in n.targets[0].elts) and isinstance(n.value, ast.Call) and isinstance(n.value.func, ast.Attribute) and n.value.func.attr in ("split", "rsplit", "splitlines"):
                out.append((fn, n, "`%s` unpacks the result of .%s() into %d names: ValueError when the text has a different number of pieces (use .partition())" % (short(n, 60), n.value.func.attr, len(n.targets[0].elts))))
    return out


def last_iteration_leaks(m):
    """(function, node, reason) where a name bound only inside a loop's body (not the loop target, not a parameter, bound
    nowhere else in the function) is read after that loop in the enclosing block: it then holds the value of the last
    iteration only -- typically an accumulation statement that slipped out of the loop it belongs to."""
    out = []
    for fn in [f for f in ast.walk(m.tree) if isinstance(f, (ast.FunctionDef, ast.AsyncFunctionDef))]:
        params = {a.arg for a in fn.args.posonlyargs + fn.args.args + fn.args.kwonlyargs}
        for owner in ast.walk(fn):
            for field in ("body", "orelse", "finalbody"):
                blk = getattr(owner, field, None)
                if not isinstance(blk, list):
                    continue
                for i, s in enumerate(blk):
                    if not isinstance(s, (ast.For, ast.While)):
                        continue
                    inner = {x.id for b in s.body for x in ast.walk(b) if isinstance(x, ast.Name) and isinstance(x.ctx, ast.Store)}
                    tgt = {x.id for x in ast.walk(s.target) if isinstance(x, ast.Name)} if isinstance(s, ast.For) else set()
                    inloop = {id(y) for y in ast.walk(s)}
                    outside = {x.id for x in ast.walk(fn) if isinstance(x, ast.Name) and isinstance(x.ctx, ast.Store) and id(x) not in inloop}
                    cand = inner - outside - params - tgt
                    for later in blk[i + 1:]:
                        for x in ast.walk(later):
                            if cand and isinstance(x, ast.Name) and isinstance(x.ctx, ast.Load) and x.id in cand:
                                out.append((fn, x, "`%s` is bound only inside the loop at line %d but read after it: only the last iteration's value is used" % (x.id, s.lineno)))
                                cand = cand - {x.id}
    return out


def length_differences(m):
    """(violations, guarded count): every store `d['..._length'] = a - b` (a a local, b a local or a constant) must be
    preceded, in the same function, by a statement `if a < b: raise ...` that every path to the store passes
    (a statement of the function body or of a block enclosing the store, before the store), with neither a nor b
    rebound in between: a length field is an unsigned quantity of the bitstream and the serialiser rejects a negative one."""
    out, guarded = [], 0
    for fn in [f for f in ast.walk(m.tree) if isinstance(f, (ast.FunctionDef, ast.AsyncFunctionDef))]:
        for s in ast.walk(fn):
            if not (isinstance(s, ast.Assign) and len(s.targets) == 1 and isinstance(s.targets[0], ast.Subscript) and isinstance(s.targets[0].slice, ast.Constant) and isinstance(s.targets[0].slice.value, str) and s.targets[0].slice.value.endswith("_length")):
                continue
            v = s.value
            if not (isinstance(v, ast.BinOp) and isinstance(v.op, ast.Sub) and isinstance(v.left, ast.Name) and isinstance(v.right, (ast.Name, ast.Constant))):
                continue
            a = v.left.id
            b = v.right.id if isinstance(v.right, ast.Name) else repr(v.right.value)
            want = ("%s < %s" % (a, b), "%s > %s" % (b, a))
            if isinstance(v.right, ast.Constant) and isinstance(v.right.value, int):
                want += ("%s <= %d" % (a, v.right.value - 1), "%d >= %s" % (v.right.value - 1, a))
            # statements that dominate the store: earlier siblings in every enclosing block
            ok = False
            node = s
            p = getattr(s, "_parent", None)
            chain = []
            while p is not None:
                for field in ("body", "orelse", "finalbody"):
                    blk = getattr(p, field, None)
                    if isinstance(blk, list) and any(x is node for x in blk):
                        i = [k for k, x in enumerate(blk) if x is node][0]
                        chain.append(blk[:i])
                if p is fn:
                    break
                node, p = p, getattr(p, "_parent", None)
            before = [x for blk in reversed(chain) for x in blk]  # program order
            guard_at = None
            for i, x in enumerate(before):
                if isinstance(x, ast.If) and not x.orelse and x.body and isinstance(x.body[-1], ast.Raise) and short_norm(x.test) in want:
                    guard_at = i
            if guard_at is not None:
                later = before[guard_at + 1:]
                rebound = any(isinstance(n, ast.Name) and isinstance(n.ctx, ast.Store) and n.id in (a, b) for x in later for n in ast.walk(x))
                ok = not rebound
            if ok:
                guarded += 1
            else:
                out.append((fn, s, "`%s` is stored into a length field without a dominating `if %s < %s: raise ...` (or %s / %s is rebound after it): the field can go negative" % (short(s, 60), a, b, a, b)))
    return out, guarded


def short_norm(e):
    from .core import norm

    return norm(e)


def stale_lower_bound_guards(m):
    out = []
    for fn in [f for f in ast.walk(m.tree) if isinstance(f, (ast.FunctionDef, ast.AsyncFunctionDef))]:
        for owner in ast.walk(fn):
            for field in ("body", "orelse"):
                blk = getattr(owner, field, None)
                if not isinstance(blk, list):
                    continue
                for i, s in enumerate(blk):
                    if isinstance(s, ast.If) and isinstance(s.test, ast.Compare) and len(s.test.ops) == 1 and isinstance(s.test.left, ast.Name) and isinstance(s.test.ops[0], (ast.Lt, ast.LtE)) and any(isinstance(b, ast.Raise) for b in s.body) and not s.orelse:
                        v = s.test.left.id
                        for later in blk[i + 1:]:
                            rebound = False
                            for n in ast.walk(later):
                                if isinstance(n, ast.Assign) and any(isinstance(t, ast.Name) and t.id == v for t in n.targets):
                                    rebound = True
                                if isinstance(n, ast.AugAssign) and isinstance(n.target, ast.Name) and n.target.id == v and isinstance(n.op, ast.Sub) and not rebound:
                                    out.append((fn, s, "`%s` is checked by `if %s: raise` at line %d and then decreased at line %d (`%s`)" % (v, short(s.test, 40), s.lineno, n.lineno, short(n, 40))))
                            if rebound:
                                break
    return out


# reviewed: (module suffix, function) -> why truthiness is the intended test there
TRUTHINESS_SANCTIONED = {
    ("decoder.stream", "parse_info"): "a next_parse_offset of 0 means 'not given' (10.5.1): zero and absent are deliberately treated alike",
    ("test_cases.bit_widths_common", "get_bundle_filename"): "an empty environment variable means 'use the default file name'",
}


def _is_get(e):
    return isinstance(e, ast.Call) and isinstance(e.func, ast.Attribute) and e.func.attr == "get" and 1 <= len(e.args) <= 2 and not e.keywords


def truthiness_presence(m):
    out = []
    for fn in [f for f in ast.walk(m.tree) if isinstance(f, (ast.FunctionDef, ast.AsyncFunctionDef))]:
        gets = {}
        for n in ast.walk(fn):
            if isinstance(n, ast.Assign) and len(n.targets) == 1 and isinstance(n.targets[0], ast.Name) and _is_get(n.value):
                d = n.value.args[1] if len(n.value.args) == 2 else None
                if d is None or (isinstance(d, ast.Constant) and d.value is None):
                    gets[n.targets[0].id] = n
        for n in ast.walk(fn):
            if isinstance(n, ast.BoolOp) and isinstance(n.op, ast.Or):
                for v in n.values[:-1]:
                    if _is_get(v) or (isinstance(v, ast.Name) and v.id in gets):
                        out.append((fn, n, "`%s`: a present but falsy entry (0, False, empty) is replaced by the fallback" % short(n, 60)))
            test = getattr(n, "test", None) if isinstance(n, (ast.If, ast.IfExp, ast.While)) else None
            if test is not None:
                t = test.operand if isinstance(test, ast.UnaryOp) and isinstance(test.op, ast.Not) else test
                if _is_get(t) or (isinstance(t, ast.Name) and t.id in gets):
                    out.append((fn, n, "`%s` decides presence by truthiness%s: an entry holding 0 / False / an empty value is treated as absent" % (short(test, 50), " (%s)" % short(gets[t.id], 50) if isinstance(t, ast.Name) else "")))
    return out


def optional_attr_truthiness(m):
    """`if self.x:` / `not self.x` / `self.x or y` where the class assigns self.x = None in one place
    and some other value elsewhere: a legitimate 0 / empty value is then taken for 'absent'"""
    out = []
    for cls in [c for c in ast.walk(m.tree) if isinstance(c, ast.ClassDef)]:
        none_attrs, other = set(), set()
        for n in ast.walk(cls):
            if isinstance(n, ast.Assign):
                for t in n.targets:
                    if isinstance(t, ast.Attribute) and dotted(t.value) == "self":
                        if isinstance(n.value, ast.Constant) and n.value.value is None:
                            none_attrs.add(t.attr)
                        elif not (isinstance(n.value, ast.Constant) and isinstance(n.value.value, bool)):
                            other.add(t.attr)
        opt = none_attrs & other
        if not opt:
            continue
        seen = set()
        for n in ast.walk(cls):
            cands = []
            if isinstance(n, (ast.If, ast.IfExp, ast.While)):
                cands.append(n.test)
            if isinstance(n, ast.UnaryOp) and isinstance(n.op, ast.Not):
                cands.append(n.operand)
            if isinstance(n, ast.BoolOp):
                cands.extend(n.values[:-1] if isinstance(n.op, ast.Or) else n.values)
            if isinstance(n, ast.Call) and dotted(n.func) == "bool" and n.args:
                cands.append(n.args[0])
            for c in cands:
                if isinstance(c, ast.UnaryOp) and isinstance(c.op, ast.Not):
                    c = c.operand
                if isinstance(c, ast.Attribute) and dotted(c.value) == "self" and c.attr in opt and id(c) not in seen:
                    seen.add(id(c))
                    fn = n
                    while fn is not None and not isinstance(fn, (ast.FunctionDef, ast.AsyncFunctionDef)):
                        fn = getattr(fn, "_parent", None)
                    out.append((fn if fn is not None else cls, n, "`%s` tests self.%s by truthiness although it is None in one state and a value (possibly 0 / empty) in another: use `is None`" % (short(n, 50), c.attr)))
    return out


def optional_entry_truthiness(m):
    """the same for dictionary entries within one module: d['k'] = None somewhere and d['k'] = <something else> somewhere
    else (same container name, same literal key), yet `not d['k']` / `if d['k']:` decides which state it is in"""
    out = []
    none_keys, other = set(), set()
    for n in ast.walk(m.tree):
        if isinstance(n, ast.Assign):
            for t in n.targets:
                if isinstance(t, ast.Subscript) and isinstance(t.value, ast.Name) and isinstance(t.slice, ast.Constant) and isinstance(t.slice.value, str):
                    k = (t.value.id, t.slice.value)
                    if isinstance(n.value, ast.Constant) and n.value.value is None:
                        none_keys.add(k)
                    elif not (isinstance(n.value, ast.Constant) and isinstance(n.value.value, bool)):
                        other.add(k)
    opt = none_keys & other
    if not opt:
        return out
    seen = set()
    for n in ast.walk(m.tree):
        cands = []
        if isinstance(n, (ast.If, ast.IfExp, ast.While)):
            cands.append(n.test)
        if isinstance(n, ast.UnaryOp) and isinstance(n.op, ast.Not):
            cands.append(n.operand)
        if isinstance(n, ast.BoolOp):
            cands.extend(n.values[:-1] if isinstance(n.op, ast.Or) else n.values)
        if isinstance(n, ast.Call) and dotted(n.func) == "bool" and n.args:
            cands.append(n.args[0])
        for c in cands:
            if isinstance(c, ast.UnaryOp) and isinstance(c.op, ast.Not):
                c = c.operand
            if isinstance(c, ast.Subscript) and isinstance(c.value, ast.Name) and isinstance(c.slice, ast.Constant) and (c.value.id, c.slice.value) in opt and id(c) not in seen:
                seen.add(id(c))
                fn = n
                while fn is not None and not isinstance(fn, (ast.FunctionDef, ast.AsyncFunctionDef)):
                    fn = getattr(fn, "_parent", None)
                if fn is not None:
                    out.append((fn, n, "`%s` tests %s[%r] by truthiness although it is None in one state and a value (possibly 0) in another: use `is None`" % (short(n, 50), c.value.id, c.slice.value)))
    return out


FIXTURE = '''
def area(w, h):
    return w * h
def f(w, h, n):
    if n < 16:
        raise ValueError()
    n -= 7
    return area(h, w) + n
class R(object):
    def __init__(self):
        self.cur = None
    def load(self, b):
        self.cur = b
    def done(self):
        return not self.cur
def eof(st):
    st["cur"] = None
def load(st, b):
    st["cur"] = b
def at_end(st):
    return not st["cur"]
def share(units):
    hdr = dict(a=1)
    for u in units:
        u["hdr"] = hdr
    for u in units:
        fresh = dict(a=1)
        u["other"] = fresh
def cut(text):
    head, tail = text.split("|", 1)
    first, _, rest = text.partition("|")
    return head, tail, first, rest
def leak(rows):
    best = 0
    for r in rows:
        for c in r:
            size = len(c)
        best = max(size, best)
    return best
def lens(d, total):
    if total < 2:
        raise ValueError()
    d["a_length"] = total - 2
    total = total - 1
    d["b_length"] = total - 2
def h(w, h, n=0):
    return w
def k(w, n=3):
    return h(w, 1) + h(w, 2, n)
def g(d):
    v = d.get("k")
    if not v:
        v = []
    return d.get("n") or 1
'''


def selfcheck():
    class M(object):
        pass

    m = M()
    m.tree = ast.parse(FIXTURE)
    m.name = "fixture"
    for p in ast.walk(m.tree):
        for ch in ast.iter_child_nodes(p):
            ch._parent = p
    funcs = {f.name: f for f in m.tree.body if isinstance(f, ast.FunctionDef)}

    class R(object):
        def resolve(self, modname, name):
            class S(object):
                pass

            if name in funcs:
                s = S()
                s.kind, s.mod, s.name, s.node = "func", "fixture", name, funcs[name]
                return s
            return None

    if len(swapped_arguments(R(), m)) != 1 or len(stale_lower_bound_guards(m)) != 1 or len(truthiness_presence(m)) != 2 or len(optional_attr_truthiness(m)) != 1 or (len(dropped_forwarding(R(), m)[0]), dropped_forwarding(R(), m)[1]) != (1, 1) or len(shared_object_in_loop(m)) != 1 or (len(length_differences(m)[0]), length_differences(m)[1]) != (1, 1) or len(last_iteration_leaks(m)) != 1 or len(split_unpacking(m)) != 1 or len(optional_entry_truthiness(m)) != 1:
        raise AnalysisError("bug-pattern rules no longer recognise their positive fixture")


def rule(repo, res, rid, modules):
    selfcheck()
    res.ok(rid, "bug-patterns:fixture", "vcheck/lints.py", by="both patterns found in the positive fixture")
    for name in modules:
        m = repo.mod(name)
        sw = swapped_arguments(repo, m)
        st = stale_lower_bound_guards(m)
        tp = [(fn, n, why) for fn, n, why in truthiness_presence(m) if (name, fn.name) not in TRUTHINESS_SANCTIONED] + optional_attr_truthiness(m) + optional_entry_truthiness(m)
        df, _fw = dropped_forwarding(repo, m)
        df = df + shared_object_in_loop(m, repo) + length_differences(m)[0] + last_iteration_leaks(m) + split_unpacking(m)
        bad = ["%s in %s (line %d)" % (why, fn.name, n.lineno) for fn, n, why in sw + df] + ["%s in %s" % (why, fn.name) for fn, n, why in st] + ["%s in %s (line %d)" % (why, fn.name, n.lineno) for fn, n, why in tp]
        res.check(not bad, rid, "bug-patterns:%s" % name, m.rel, "; ".join(bad), by="no swapped same-named arguments, no lower-bound guard followed by a decrement, no presence-by-truthiness of a dictionary entry, every same-named defaulted parameter passed on, no loop storing one fresh mutable object into many containers, every `x - y` stored into a length field dominated by `if x < y: raise`, no name bound only inside a loop read after it, no fixed-arity unpacking of a str.split()")
