"""Two exact, repository-wide bug-pattern rules with zero expected instances
(each keeps a positive fixture):

swapped arguments     a call passes the local named like parameter B in the
                      position of parameter A *and* the local named like A in
                      the position of B (e.g. slice_bytes(state, sy, sx) for
                      def slice_bytes(state, sx, sy));
stale lower-bound     `if v < K: raise ...` on a local v that is decremented
guard                 later in the same block: the guard no longer holds for
                      the value actually used.
presence by           whether a dictionary entry is *present* is decided by the
truthiness            truthiness of d.get(k): `d.get(k) or default`, `if d.get(k):`,
                      `v = d.get(k) ... if not v:` -- an entry holding 0, False,
                      "" or an empty container is then treated as absent.  Two
                      reviewed instances on the tree are sanctioned by name.
dropped forwarding    f(p=...) calls g, g has a defaulted parameter also named
                      p, and the call does not bind it: g's default silently
                      replaces the caller's value (23 forwarding calls on the
                      reviewed tree, none dropped).
"""
import ast

from .core import AnalysisError, dotted, short


def swapped_arguments(repo, m):
    out = []
    for fn in [f for f in ast.walk(m.tree) if isinstance(f, (ast.FunctionDef, ast.AsyncFunctionDef))]:
        for c in ast.walk(fn):
            if not (isinstance(c, ast.Call) and isinstance(c.func, ast.Name)):
                continue
            tgt = repo.resolve(m.name, c.func.id)
            if tgt is None or getattr(tgt, "kind", None) != "func" or tgt.node is None:
                continue
            params = [a.arg for a in tgt.node.args.posonlyargs + tgt.node.args.args]
            bound = {}
            for i, a in enumerate(c.args):
                if isinstance(a, ast.Starred):
                    break
                if i < len(params) and isinstance(a, ast.Name):
                    bound[params[i]] = a.id
            for k in c.keywords:
                if k.arg is not None and isinstance(k.value, ast.Name):
                    bound[k.arg] = k.value.id
            for p, a in bound.items():
                if a != p and a in bound and bound[a] == p and p < a:
                    out.append((fn, c, "passes `%s` as parameter %s and `%s` as parameter %s of %s" % (a, p, p, a, tgt.name)))
    return out


def dropped_forwarding(repo, m):
    """(function, call, reason) for every call g(...) inside a function f where f has a parameter p, the
    resolved callee g has a *defaulted* parameter also named p, and the call does not bind g's p at all:
    the caller's request silently falls back to g's default.  (count of calls that do forward such a
    parameter is returned as well, for the vacuity floor)"""
    out, forwarded = [], 0
    for fn in [f for f in ast.walk(m.tree) if isinstance(f, (ast.FunctionDef, ast.AsyncFunctionDef))]:
        mine = set(a.arg for a in fn.args.posonlyargs + fn.args.args + fn.args.kwonlyargs)
        for c in ast.walk(fn):
            if not (isinstance(c, ast.Call) and isinstance(c.func, ast.Name)):
                continue
            tgt = repo.resolve(m.name, c.func.id)
            if tgt is None or getattr(tgt, "kind", None) != "func" or tgt.node is None or tgt.node is fn:
                continue
            if any(isinstance(a, ast.Starred) for a in c.args) or any(k.arg is None for k in c.keywords):
                continue
            ta = tgt.node.args
            pos = [a.arg for a in ta.posonlyargs + ta.args]
            ndef = len(ta.defaults)
            defaulted = set(pos[len(pos) - ndef:] if ndef else []) | set(a.arg for a, d in zip(ta.kwonlyargs, ta.kw_defaults) if d is not None)
            bound = set(pos[: len(c.args)]) | set(k.arg for k in c.keywords)
            for p in sorted(defaulted & mine):
                if p in bound:
                    forwarded += 1
                else:
                    out.append((fn, c, "call of %s does not pass on `%s` (a parameter of both; %s's default is used instead of the caller's value)" % (tgt.name, p, tgt.name)))
    return out, forwarded


def stale_lower_bound_guards(m):
    out = []
    for fn in [f for f in ast.walk(m.tree) if isinstance(f, (ast.FunctionDef, ast.AsyncFunctionDef))]:
        for owner in ast.walk(fn):
            for field in ("body", "orelse"):
                blk = getattr(owner, field, None)
                if not isinstance(blk, list):
                    continue
                for i, s in enumerate(blk):
                    if isinstance(s, ast.If) and isinstance(s.test, ast.Compare) and len(s.test.ops) == 1 and isinstance(s.test.left, ast.Name) and isinstance(s.test.ops[0], (ast.Lt, ast.LtE)) and any(isinstance(b, ast.Raise) for b in s.body) and not s.orelse:
                        v = s.test.left.id
                        for later in blk[i + 1:]:
                            rebound = False
                            for n in ast.walk(later):
                                if isinstance(n, ast.Assign) and any(isinstance(t, ast.Name) and t.id == v for t in n.targets):
                                    rebound = True
                                if isinstance(n, ast.AugAssign) and isinstance(n.target, ast.Name) and n.target.id == v and isinstance(n.op, ast.Sub) and not rebound:
                                    out.append((fn, s, "`%s` is checked by `if %s: raise` at line %d and then decreased at line %d (`%s`)" % (v, short(s.test, 40), s.lineno, n.lineno, short(n, 40))))
                            if rebound:
                                break
    return out


# reviewed: (module suffix, function) -> why truthiness is the intended test there
TRUTHINESS_SANCTIONED = {
    ("decoder.stream", "parse_info"): "a next_parse_offset of 0 means 'not given' (10.5.1): zero and absent are deliberately treated alike",
    ("test_cases.bit_widths_common", "get_bundle_filename"): "an empty environment variable means 'use the default file name'",
}


def _is_get(e):
    return isinstance(e, ast.Call) and isinstance(e.func, ast.Attribute) and e.func.attr == "get" and 1 <= len(e.args) <= 2 and not e.keywords


def truthiness_presence(m):
    out = []
    for fn in [f for f in ast.walk(m.tree) if isinstance(f, (ast.FunctionDef, ast.AsyncFunctionDef))]:
        gets = {}
        for n in ast.walk(fn):
            if isinstance(n, ast.Assign) and len(n.targets) == 1 and isinstance(n.targets[0], ast.Name) and _is_get(n.value):
                d = n.value.args[1] if len(n.value.args) == 2 else None
                if d is None or (isinstance(d, ast.Constant) and d.value is None):
                    gets[n.targets[0].id] = n
        for n in ast.walk(fn):
            if isinstance(n, ast.BoolOp) and isinstance(n.op, ast.Or):
                for v in n.values[:-1]:
                    if _is_get(v) or (isinstance(v, ast.Name) and v.id in gets):
                        out.append((fn, n, "`%s`: a present but falsy entry (0, False, empty) is replaced by the fallback" % short(n, 60)))
            test = getattr(n, "test", None) if isinstance(n, (ast.If, ast.IfExp, ast.While)) else None
            if test is not None:
                t = test.operand if isinstance(test, ast.UnaryOp) and isinstance(test.op, ast.Not) else test
                if _is_get(t) or (isinstance(t, ast.Name) and t.id in gets):
                    out.append((fn, n, "`%s` decides presence by truthiness%s: an entry holding 0 / False / an empty value is treated as absent" % (short(test, 50), " (%s)" % short(gets[t.id], 50) if isinstance(t, ast.Name) else "")))
    return out


def optional_attr_truthiness(m):
    """`if self.x:` / `not self.x` / `self.x or y` where the class assigns self.x = None in one place
    and some other value elsewhere: a legitimate 0 / empty value is then taken for 'absent'"""
    out = []
    for cls in [c for c in ast.walk(m.tree) if isinstance(c, ast.ClassDef)]:
        none_attrs, other = set(), set()
        for n in ast.walk(cls):
            if isinstance(n, ast.Assign):
                for t in n.targets:
                    if isinstance(t, ast.Attribute) and dotted(t.value) == "self":
                        if isinstance(n.value, ast.Constant) and n.value.value is None:
                            none_attrs.add(t.attr)
                        elif not (isinstance(n.value, ast.Constant) and isinstance(n.value.value, bool)):
                            other.add(t.attr)
        opt = none_attrs & other
        if not opt:
            continue
        seen = set()
        for n in ast.walk(cls):
            cands = []
            if isinstance(n, (ast.If, ast.IfExp, ast.While)):
                cands.append(n.test)
            if isinstance(n, ast.UnaryOp) and isinstance(n.op, ast.Not):
                cands.append(n.operand)
            if isinstance(n, ast.BoolOp):
                cands.extend(n.values[:-1] if isinstance(n.op, ast.Or) else n.values)
            if isinstance(n, ast.Call) and dotted(n.func) == "bool" and n.args:
                cands.append(n.args[0])
            for c in cands:
                if isinstance(c, ast.UnaryOp) and isinstance(c.op, ast.Not):
                    c = c.operand
                if isinstance(c, ast.Attribute) and dotted(c.value) == "self" and c.attr in opt and id(c) not in seen:
                    seen.add(id(c))
                    fn = n
                    while fn is not None and not isinstance(fn, (ast.FunctionDef, ast.AsyncFunctionDef)):
                        fn = getattr(fn, "_parent", None)
                    out.append((fn if fn is not None else cls, n, "`%s` tests self.%s by truthiness although it is None in one state and a value (possibly 0 / empty) in another: use `is None`" % (short(n, 50), c.attr)))
    return out


FIXTURE = '''
def area(w, h):
    return w * h
def f(w, h, n):
    if n < 16:
        raise ValueError()
    n -= 7
    return area(h, w) + n
class R(object):
    def __init__(self):
        self.cur = None
    def load(self, b):
        self.cur = b
    def done(self):
        return not self.cur
def h(w, h, n=0):
    return w
def k(w, n=3):
    return h(w, 1) + h(w, 2, n)
def g(d):
    v = d.get("k")
    if not v:
        v = []
    return d.get("n") or 1
'''


def selfcheck():
    class M(object):
        pass

    m = M()
    m.tree = ast.parse(FIXTURE)
    m.name = "fixture"
    for p in ast.walk(m.tree):
        for ch in ast.iter_child_nodes(p):
            ch._parent = p
    funcs = {f.name: f for f in m.tree.body if isinstance(f, ast.FunctionDef)}

    class R(object):
        def resolve(self, modname, name):
            class S(object):
                pass

            if name in funcs:
                s = S()
                s.kind, s.mod, s.name, s.node = "func", "fixture", name, funcs[name]
                return s
            return None

    if len(swapped_arguments(R(), m)) != 1 or len(stale_lower_bound_guards(m)) != 1 or len(truthiness_presence(m)) != 2 or len(optional_attr_truthiness(m)) != 1 or (len(dropped_forwarding(R(), m)[0]), dropped_forwarding(R(), m)[1]) != (1, 1):
        raise AnalysisError("bug-pattern rules no longer recognise their positive fixture")


def rule(repo, res, rid, modules):
    selfcheck()
    res.ok(rid, "bug-patterns:fixture", "vcheck/lints.py", by="both patterns found in the positive fixture")
    for name in modules:
        m = repo.mod(name)
        sw = swapped_arguments(repo, m)
        st = stale_lower_bound_guards(m)
        tp = [(fn, n, why) for fn, n, why in truthiness_presence(m) if (name, fn.name) not in TRUTHINESS_SANCTIONED] + optional_attr_truthiness(m)
        df, _fw = dropped_forwarding(repo, m)
        bad = ["%s in %s (line %d)" % (why, fn.name, n.lineno) for fn, n, why in sw + df] + ["%s in %s" % (why, fn.name) for fn, n, why in st] + ["%s in %s (line %d)" % (why, fn.name, n.lineno) for fn, n, why in tp]
        res.check(not bad, rid, "bug-patterns:%s" % name, m.rel, "; ".join(bad), by="no swapped same-named arguments, no lower-bound guard followed by a decrement, no presence-by-truthiness of a dictionary entry, every same-named defaulted parameter passed on")
