"""E5 StateFlow: interprocedural abstract interpretation of the ``state``
dictionary of the VC-2 pseudocode (see DESIGN.md section 3).

Abstract value at a program point: (D, F, P, E)
  D  must-defined keys (dict key -> provenance tag)
  F  facts  ("NZ", k) / ("EQ0", k)
  P  predicate-conditional definedness  pred -> frozenset(keys)
  E  must-have-happened event tags (for must-pass-through rules)

Calls that receive ``state`` are inlined (the decoder call graph is acyclic;
recursion is an AnalysisError) and memoised on (callee, abstract entry, const
env).  Three invariant families are computed by an outer fixpoint (Implied,
INV: greatest fixpoints; GNZ) -- soundness argument in DESIGN.md E5.
"""
import ast
from collections import OrderedDict, defaultdict, namedtuple

from .core import AnalysisError, const_str, dotted, norm, short

STATE = "state"
STATE_METHODS_RO = {"get", "keys", "items", "values", "copy", "__contains__"}

ReadOb = namedtuple("ReadOb", "mod fn node key ok by stack kind")
DivOb = namedtuple("DivOb", "mod fn node key ok by stack")
DynOb = namedtuple("DynOb", "mod fn node stack")


class AS(object):
    __slots__ = ("D", "F", "P", "E", "_key", "_closed")

    def __init__(self, D=None, F=frozenset(), P=None, E=frozenset()):
        self.D = D if D is not None else {}
        self.F = F
        self.P = P if P is not None else {}
        self.E = E
        self._key = None
        self._closed = None

    def key(self):
        if self._key is None:
            self._key = (
                frozenset(self.D),
                self.F,
                frozenset((p, v) for p, v in self.P.items()),
                self.E,
            )
        return self._key

    def with_D(self, extra, tag):
        missing = [k for k in extra if k not in self.D]
        if not missing:
            return self
        D = dict(self.D)
        for k in missing:
            D[k] = tag
        return AS(D, self.F, self.P, self.E)

    def with_F(self, *facts):
        if all(f in self.F for f in facts):
            return self
        return AS(self.D, self.F | frozenset(facts), self.P, self.E)

    def with_E(self, *ev):
        if all(e in self.E for e in ev):
            return self
        return AS(self.D, self.F, self.P, self.E | frozenset(ev))


def join(a, b):
    if a is None:
        return b
    if b is None:
        return a
    if a is b:
        return a
    D = {}
    for k, t in a.D.items():
        if k in b.D:
            D[k] = t if b.D[k] == t else "join"
    P = {}
    for p, v in a.P.items():
        if p in b.P:
            P[p] = v & b.P[p]
    return AS(D, a.F & b.F, P, a.E & b.E)


class Frame(object):
    """Per inlined-call context."""

    def __init__(self, mod, fn, name, stack, env):
        self.mod = mod  # Module
        self.fn = fn  # FunctionDef
        self.name = name
        self.stack = stack  # tuple of function names
        self.env = env  # local name -> frozenset of constant strings
        self.returns = []
        self.loops = []  # stack of [break_states, continue_states]
        self.local_funcs = {}
        self.pending = []  # keys stored in the current straight-line run
        self.store_log = []  # every key stored (incl. callees), in order
        self.state_param = STATE
        self.try_depth = 0


REFLECTIVE_BUILTINS = {"getattr", "hasattr", "setattr", "vars", "isinstance", "id", "type", "repr"}


class StateFlow(object):
    def __init__(self, repo, axioms=True, unsigned_reads=None):
        self.repo = repo
        self.use_axioms = axioms
        self.reads = []
        self.divs = []
        self.dyn = []
        self.events_log = []
        self.functions = OrderedDict()  # (mod, name) -> times inlined
        self.call_sites = 0
        self.all_keys = set()
        self.stored_keys = set()
        self.deleted_keys = set()
        self.assigners = defaultdict(set)  # key -> function names storing it
        self.keys_stored_by = {}
        self._blocked_cache = None
        self.epoch = 0
        self.implied_obs = defaultdict(list)
        self.inv_obs = defaultdict(list)
        self.gnz_exit = defaultdict(list)
        self.IMPLIED = {}
        self.INV = {}
        self.GNZ = set()
        self.memo = {}
        self.stack_names = []
        self.peeled = 0
        self.pred_deps = {}
        self.retained = self._retained()
        self.hooks = []  # callables (sf, callnode, target Sym or None, st, frame) -> st
        self.post_hooks = []  # callables (sf, callnode, target, st_before, st_after, frame) -> st_after
        self.excepted = {}  # (function name, key) -> reason: reads assumed defined (exceptions table)
        self.excepted_hits = []
        self.excepted_context = "fragment_data"  # the table applies only below this function
        self.alias_keys = {}  # key -> description of the module-level object it may alias
        self.alias_muts = []  # (mod, fn, node, key, ok, stack)
        self.rounds = 0
        self.recording = True
        self._scan_assigners()
        self._finish_assigners()
        self._scan_aliases()

    # ------------------------------------------------------------ statics
    def _retained(self):
        m, v = self.repo.assign("pseudocode.state:retained_state_fields")
        if not isinstance(v, (ast.List, ast.Tuple)) or not all(const_str(e) for e in v.elts):
            raise AnalysisError("retained_state_fields is not a literal list of strings")
        return [const_str(e) for e in v.elts]

    def _scan_assigners(self):
        for m in self.repo.modules.values():
            for fn in ast.walk(m.tree):
                if not isinstance(fn, ast.FunctionDef):
                    continue
                for n in ast.walk(fn):
                    tgts = []
                    if isinstance(n, ast.Assign):
                        tgts = n.targets
                    elif isinstance(n, ast.AugAssign):
                        tgts = [n.target]
                    elif isinstance(n, ast.Delete):
                        for t in n.targets:
                            k = self.skey_syntactic(t)
                            if k:
                                self.deleted_keys.add(k)
                    elif isinstance(n, ast.Call) and dotted(n.func) == "state.setdefault" and n.args:
                        k = const_str(n.args[0])
                        if k:
                            self.assigners[k].add(fn.name)
                    elif isinstance(n, ast.Call) and dotted(n.func) == "state.pop" and n.args:
                        k = const_str(n.args[0])
                        if k:
                            self.deleted_keys.add(k)
                    for t in tgts:
                        k = self.skey_syntactic(t)
                        if k:
                            self.assigners[k].add(fn.name)

    def _scan_aliases(self):
        """keys assigned directly from a module-level / external table object:
        state[k] = TABLE[...] / TABLE / mod.TABLE  (stored by reference)."""
        for m in self.repo.modules.values():
            for fn in ast.walk(m.tree):
                if not isinstance(fn, ast.FunctionDef):
                    continue
                local = set(a.arg for a in fn.args.args)
                for n in ast.walk(fn):
                    if isinstance(n, ast.Name) and isinstance(n.ctx, ast.Store):
                        local.add(n.id)
                for n in ast.walk(fn):
                    if isinstance(n, ast.Assign):
                        for t in n.targets:
                            k = self.skey_syntactic(t)
                            if not k:
                                continue
                            v = n.value
                            base = v
                            while isinstance(base, (ast.Subscript, ast.Attribute)):
                                base = base.value
                            if isinstance(v, (ast.Subscript, ast.Name, ast.Attribute)) and isinstance(base, ast.Name) and base.id not in local and base.id != STATE:
                                sym = self.repo.resolve(m.name, base.id)
                                if sym is not None and (sym.kind == "external" or (sym.kind == "assign" and not isinstance(sym.node, ast.Constant))):
                                    self.alias_keys.setdefault(k, "%s:%s `%s`" % (m.rel, fn.name, norm(n)))

    def _finish_assigners(self):
        d = defaultdict(set)
        for k, fns in self.assigners.items():
            for f in fns:
                d[f].add(k)
        self.keys_stored_by = {f: tuple(sorted(ks)) for f, ks in d.items()}

    @staticmethod
    def skey_syntactic(node):
        if (
            isinstance(node, ast.Subscript)
            and isinstance(node.value, ast.Name)
            and node.value.id == STATE
        ):
            return const_str(node.slice)
        return None

    # ------------------------------------------------------------ keys
    def keys_of(self, node, fr):
        """state[<expr>] -> list of possible constant keys, or None if this is
        not a state subscript, or [] if the key is not statically known."""
        if not (
            isinstance(node, ast.Subscript)
            and isinstance(node.value, ast.Name)
            and node.value.id == fr.state_param
        ):
            return None
        k = const_str(node.slice)
        if k is not None:
            return [k]
        if isinstance(node.slice, ast.Name) and node.slice.id in fr.env:
            return sorted(fr.env[node.slice.id])
        return []

    # ------------------------------------------------------------ closure
    def blocked(self):
        b = self._blocked_cache
        if b is None or b[0] != len(self.stack_names) or b[1] is not self.GNZ:
            names = set(self.stack_names)
            b = (len(self.stack_names), self.GNZ, frozenset(k for k in self.GNZ if self.assigners[k] & names))
            self._blocked_cache = b
        return b[2]

    def closure(self, st):
        """Apply the derived invariants: NZ(g) grants INV(g); k in D and GNZ(k)
        (no storing function on the stack) grants NZ(k)."""
        if st is None:
            return None
        tag = (self.epoch, self.blocked() if self.GNZ else None)
        if st._closed == tag:
            return st
        changed = True
        while changed:
            changed = False
            for f in st.F:
                if f[0] == "NZ":
                    if ("OK", f[1]) not in st.F and f[1] in self.assigners:
                        st = st.with_F(("OK", f[1]))
                        changed = True
                        break
                    extra = self.INV.get(f[1])
                    if extra:
                        n = st.with_D(extra, "INV(%s)" % f[1])
                        if n is not st:
                            st = n
                            changed = True
            if self.GNZ:
                blocked = None
                add = []
                for k in st.D:
                    if k in self.GNZ and ("NZ", k) not in st.F:
                        if blocked is None:
                            blocked = self.blocked()
                        if k not in blocked:
                            add.append(("NZ", k))
                if add:
                    st = st.with_F(*add)
                    changed = True
        st._closed = tag
        return st

    def kill(self, st, k):
        F = frozenset(f for f in st.F if f[1] != k)
        P = st.P
        if P:
            P = {p: v for p, v in P.items() if k not in self.pred_keys(p)}
        if F == st.F and len(P) == len(st.P):
            return st
        return AS(st.D, F, P, st.E)

    def pred_keys(self, p):
        if p[0] == "cmp":
            return (p[1],)
        if p[0] == "call":
            return self.pred_deps.get(p[1], ())
        return ()

    # ------------------------------------------------------------ records
    def rec_read(self, fr, node, key, st, kind="read"):
        self.all_keys.add(key)
        st = self.closure(st)
        ok = key in st.D
        if not ok and (fr.name, key) in self.excepted and self.excepted_context in fr.stack:
            kind = "excepted"
            st = self.closure(st.with_D([key], "EXC"))
        if self.recording:
            self.reads.append(
                ReadOb(fr.mod, fr.name, node, key, ok, st.D.get(key, ""), fr.stack, kind)
            )
        return st

    def rec_div(self, fr, node, key, st):
        st = self.closure(st)
        ok = ("NZ", key) in st.F
        by = "guard"
        if ok and key in self.GNZ and key not in self.blocked():
            by = "GNZ(%s)" % key
        if self.recording:
            self.divs.append(DivOb(fr.mod, fr.name, node, key, ok, by if ok else "", fr.stack))
        return st

    # ------------------------------------------------------------ expressions
    def is_state_name(self, node, fr):
        return isinstance(node, ast.Name) and node.id == fr.state_param

    def eval(self, e, st, fr):
        """Evaluate an expression for its effect on the abstract state."""
        if e is None or st is None:
            return st
        if isinstance(e, ast.Constant):
            return st
        if isinstance(e, ast.Name):
            if e.id == fr.state_param and isinstance(e.ctx, ast.Load):
                # bare use of `state` other than the recognised forms
                par = getattr(e, "_parent", None)
                if not self._bare_state_ok(e, par):
                    raise AnalysisError(
                        "%s:%s uses `state` in an unrecognised way: %s"
                        % (fr.mod.rel, fr.name, short(par))
                    )
            return st
        if isinstance(e, ast.BoolOp):
            cur = st
            outs = []
            for v in e.values:
                cur = self.eval(v, cur, fr)
                t, f = self.refine(v, cur, fr)
                if isinstance(e.op, ast.And):
                    outs.append(f)
                    cur = t
                else:
                    outs.append(t)
                    cur = f
            res = cur
            for o in outs:
                res = join(res, o)
            return res
        if isinstance(e, ast.IfExp):
            st = self.eval(e.test, st, fr)
            t, f = self.refine(e.test, st, fr)
            return join(self.eval(e.body, t, fr), self.eval(e.orelse, f, fr))
        if isinstance(e, ast.Compare):
            if (
                len(e.ops) == 1
                and isinstance(e.ops[0], (ast.In, ast.NotIn))
                and self.is_state_name(e.comparators[0], fr)
            ):
                k = const_str(e.left)
                if k is not None:
                    self.all_keys.add(k)
                return self.eval(e.left, st, fr)
            st = self.eval(e.left, st, fr)
            for c in e.comparators:
                st = self.eval(c, st, fr)
            return st
        if isinstance(e, ast.Subscript):
            ks = self.keys_of(e, fr)
            if ks is not None:
                if isinstance(e.ctx, ast.Load):
                    if not ks:
                        st = self.eval(e.slice, st, fr)
                        if self.recording:
                            self.dyn.append(DynOb(fr.mod, fr.name, e, fr.stack))
                        return st
                    for k in ks:
                        st = self.rec_read(fr, e, k, st)
                return st
            st = self.eval(e.value, st, fr)
            return self.eval(e.slice, st, fr)
        if isinstance(e, ast.BinOp):
            st = self.eval(e.left, st, fr)
            st = self.eval(e.right, st, fr)
            if isinstance(e.op, (ast.Mod, ast.FloorDiv, ast.Div)):
                ks = self.keys_of(e.right, fr)
                if ks:
                    for k in ks:
                        st = self.rec_div(fr, e, k, st)
            return st
        if isinstance(e, ast.Call):
            return self.eval_call(e, st, fr)
        if isinstance(e, ast.Lambda):
            if any(isinstance(n, ast.Name) and n.id == fr.state_param for n in ast.walk(e.body)):
                raise AnalysisError("%s:%s lambda captures state" % (fr.mod.rel, fr.name))
            return st
        if isinstance(e, (ast.ListComp, ast.SetComp, ast.GeneratorExp, ast.DictComp)):
            entry = st
            cur = st
            saved_env = fr.env
            for c in e.generators:
                cur = self.eval(c.iter, cur, fr)
                vals = self._literal_strings(c.iter, fr)
                if vals is not None and isinstance(c.target, ast.Name):
                    fr.env = dict(fr.env)
                    fr.env[c.target.id] = vals
                for i in c.ifs:
                    cur = self.eval(i, cur, fr)
            if isinstance(e, ast.DictComp):
                cur = self.eval(e.key, cur, fr)
                cur = self.eval(e.value, cur, fr)
            else:
                cur = self.eval(e.elt, cur, fr)
            fr.env = saved_env
            return join(entry, cur)
        if isinstance(e, ast.Starred):
            return self.eval(e.value, st, fr)
        if isinstance(e, (ast.Yield, ast.YieldFrom, ast.Await, ast.NamedExpr)):
            raise AnalysisError("%s:%s unsupported expression %s" % (fr.mod.rel, fr.name, type(e).__name__))
        for c in ast.iter_child_nodes(e):
            if isinstance(c, ast.expr):
                st = self.eval(c, st, fr)
        return st

    def _bare_state_ok(self, name, par):
        if isinstance(par, ast.Subscript) and par.value is name:
            return True
        if isinstance(par, ast.Attribute) and par.value is name:
            return True
        if isinstance(par, ast.Call) and name in par.args:
            return True
        if isinstance(par, ast.Compare) and name in par.comparators:
            return True
        return False

    def _literal_strings(self, it, fr):
        if isinstance(it, (ast.List, ast.Tuple)) and it.elts and all(const_str(x) is not None for x in it.elts):
            return frozenset(const_str(x) for x in it.elts)
        if isinstance(it, ast.Name) and it.id in fr.env:
            return None
        return None

    # ------------------------------------------------------------ calls
    def eval_call(self, e, st, fr):
        f = e.func
        # methods of state itself
        if isinstance(f, ast.Attribute) and self.is_state_name(f.value, fr):
            for a in e.args[1:]:
                st = self.eval(a, st, fr)
            k = const_str(e.args[0]) if e.args else None
            if f.attr == "setdefault":
                if k is None:
                    raise AnalysisError("%s:%s state.setdefault with non-literal key" % (fr.mod.rel, fr.name))
                return self.store(fr, k, st, e, zero=False, weak=True)
            if f.attr in ("get", "__contains__"):
                if k is not None:
                    self.all_keys.add(k)
                return st
            if f.attr in ("keys", "items", "values", "copy"):
                return st
            raise AnalysisError(
                "%s:%s unsupported method state.%s()" % (fr.mod.rel, fr.name, f.attr)
            )
        # evaluate callee expression & arguments (left to right)
        if not isinstance(f, ast.Name):
            st = self.eval(f, st, fr)
        for a in e.args:
            st = self.eval(a, st, fr)
        for kw in e.keywords:
            st = self.eval(kw.value, st, fr)
        self.call_sites += 1 if self.recording else 0
        target = None
        if isinstance(f, ast.Name):
            if f.id in fr.local_funcs:
                target = ("local", f.id)
            else:
                target = self.repo.resolve(fr.mod.name, f.id)
        elif isinstance(f, ast.Attribute):
            target = self.repo.resolve_expr(fr.mod.name, f)
        for h in self.hooks:
            st = h(self, e, target, st, fr)
            if st is None:
                return None
        passes_state = [i for i, a in enumerate(e.args) if self.is_state_name(a, fr)]
        kw_state = [kw.arg for kw in e.keywords if self.is_state_name(kw.value, fr)]
        if isinstance(target, tuple) and target[0] == "local":
            fnode = fr.local_funcs[target[1]]
            return self.inline_local(fnode, e, st, fr)
        if not passes_state and not kw_state:
            # a call on a *fresh* State(...) object, e.g. is_fragment(State(parse_code=x)):
            # analysed separately (does not touch the tracked state)
            return st
        if kw_state:
            raise AnalysisError("%s:%s passes state by keyword" % (fr.mod.rel, fr.name))
        if target is None and isinstance(e.func, ast.Name) and e.func.id in REFLECTIVE_BUILTINS:
            # reflection on the state *object* does not read or write its entries; the hidden-state rules report it
            return st
        if target is None or target.kind != "func":
            raise AnalysisError(
                "%s:%s passes `state` to unresolved callee %s"
                % (fr.mod.rel, fr.name, short(e.func))
            )
        if target.name == "reset_state" and target.mod.endswith("pseudocode.state"):
            return self.do_reset(st, fr)
        before = st
        after = self.inline(target, e, st, fr)
        for h in self.post_hooks:
            if after is None:
                break
            after = h(self, e, target, before, after, fr)
        return after

    def do_reset(self, st, fr):
        if fr.try_depth:
            raise AnalysisError("reset_state inside try body")
        D = {k: "retained" for k in st.D if k in self.retained}
        # events describing the I/O position survive; per-sequence events do not
        keep = frozenset(e for e in st.E if e in ("aligned",))
        return AS(D, frozenset(), {}, keep | frozenset(["reset_state"]))

    def bind(self, target_fn, call, fr, where):
        """callee param -> const-string set env; checks state position."""
        params = [a.arg for a in target_fn.args.args]
        env = {}
        for i, a in enumerate(call.args):
            if isinstance(a, ast.Starred):
                break
            if i >= len(params):
                break
            if self.is_state_name(a, fr):
                if params[i] != STATE:
                    raise AnalysisError(
                        "%s: state passed as parameter %r of %s (aliasing not modelled)"
                        % (where, params[i], target_fn.name)
                    )
                continue
            s = const_str(a)
            if s is not None:
                env[params[i]] = frozenset([s])
            elif isinstance(a, ast.Name) and a.id in fr.env:
                env[params[i]] = fr.env[a.id]
        for kw in call.keywords:
            s = const_str(kw.value)
            if kw.arg and s is not None:
                env[kw.arg] = frozenset([s])
        return env

    def inline(self, target, call, st, fr):
        fn = target.node
        mod = self.repo.modules[target.mod]
        name = target.name
        if name in fr.stack:
            raise AnalysisError("recursion through %s (call graph must be acyclic)" % name)
        env = self.bind(fn, call, fr, "%s:%s" % (fr.mod.rel, fr.name))
        self.flush(st, fr)
        st = self.closure(st)
        # GNZ obligation facts: OK(k) = "k not stored yet in this invocation,
        # or NZ(k) derived since the last store" for every key this function
        # stores directly (killed by a store, re-established with NZ(k)).
        mine = self.keys_stored_by.get(name, ())
        had = frozenset(k for k in mine if ("OK", k) in st.F)
        if mine:
            st = st.with_F(*[("OK", k) for k in mine])
        mkey = (target.mod, name, st.key(), frozenset(env.items()), self.blocked())
        self.functions[(target.mod, name)] = self.functions.get((target.mod, name), 0) + 1
        hit = self.memo.get(mkey)
        if hit is not None:
            out, stored = hit
            fr.store_log.extend(stored)
            return out
        sub = Frame(mod, fn, name, fr.stack + (name,), env)
        sub.try_depth = fr.try_depth
        self.stack_names.append(name)
        self._blocked_cache = None
        try:
            out = self.block(fn.body, st, sub)
        finally:
            self.stack_names.pop()
            self._blocked_cache = None
        res = out
        for r in sub.returns:
            res = join(res, r)
        # GNZ bookkeeping: OK(k) at the normal exit of a storing function
        if res is not None and mine:
            rc = self.closure(res)
            for k in mine:
                self.gnz_exit[k].append((name, ("OK", k) in rc.F))
            drop = frozenset(("OK", k) for k in mine if k not in had)
            if drop & res.F:
                res = AS(res.D, res.F - drop, res.P, res.E)
        fr.store_log.extend(sub.store_log)
        self.memo[mkey] = (res, list(sub.store_log))
        if res is not None and self.recording:
            k2 = (target.mod, name)
            self.exit_E[k2] = res.E if k2 not in self.exit_E else (self.exit_E[k2] & res.E)
        return res

    def closure_nognz(self, st):
        g = self.GNZ
        self.GNZ = set()
        self.epoch += 1
        try:
            return self.closure(st)
        finally:
            self.GNZ = g
            self.epoch += 1

    def inline_local(self, fnode, call, st, fr):
        # closure over the same `state`; parameters are locals
        saved = (fr.returns, fr.loops)
        fr.returns, fr.loops = [], []
        try:
            out = self.block(fnode.body, st, fr)
            res = out
            for r in fr.returns:
                res = join(res, r)
        finally:
            fr.returns, fr.loops = saved
        return res

    # ------------------------------------------------------------ stores
    def store(self, fr, k, st, node, zero=False, weak=False):
        """state[k] = ...   (weak: setdefault -- value kept if present)."""
        self.all_keys.add(k)
        self.stored_keys.add(k)
        if not weak:
            st = self.kill(st, k)
        if k not in st.D:
            D = dict(st.D)
            D[k] = "store"
            st = AS(D, st.F, st.P, st.E)
        if zero and not weak:
            st = st.with_F(("EQ0", k))
        fr.pending.append((k, zero))
        fr.store_log.append(k)
        return st

    def flush(self, st, fr):
        """End of a straight-line run of plain stores: record D for the
        Implied / INV observations of every key stored in the run."""
        if fr.pending and st is not None:
            Dk = frozenset(st.D)
            for k, zero in fr.pending:
                self.implied_obs[k].append(Dk)
                if not zero:
                    self.inv_obs[k].append(Dk)
        fr.pending = []

    def assign_target(self, tgt, value, st, fr, aug=False):
        ks = self.keys_of(tgt, fr)
        if ks is not None:
            if not ks:
                raise AnalysisError(
                    "%s:%s store to state[<non-constant>] : %s" % (fr.mod.rel, fr.name, short(tgt))
                )
            if aug:
                for k in ks:
                    st = self.rec_read(fr, tgt, k, st, kind="augread")
            zero = (not aug) and isinstance(value, ast.Constant) and value.value == 0 and value.value is not False
            fresh = (not aug) and len(ks) == 1 and isinstance(value, (ast.Dict, ast.List, ast.Set, ast.ListComp, ast.DictComp, ast.SetComp))
            for k in ks:
                st = self.store(fr, k, st, tgt, zero=zero, weak=len(ks) > 1)
                if fresh:
                    st = st.with_F(("FRESH", k))
            return st
        if isinstance(tgt, (ast.Subscript, ast.Attribute)):
            # nested store state[k][...]... = v : a mutation of the object state[k] refers to
            base = tgt
            while isinstance(base, (ast.Subscript, ast.Attribute)) and self.keys_of(base, fr) is None:
                base = base.value
            bk = self.keys_of(base, fr) if isinstance(base, ast.Subscript) else None
            if bk and self.recording:
                for k in bk:
                    if k in self.alias_keys:
                        self.alias_muts.append((fr.mod, fr.name, tgt, k, ("FRESH", k) in st.F, fr.stack))
            st = self.eval(tgt.value, st, fr)
            if isinstance(tgt, ast.Subscript):
                st = self.eval(tgt.slice, st, fr)
        elif isinstance(tgt, (ast.Tuple, ast.List)):
            for e in tgt.elts:
                st = self.assign_target(e, None, st, fr)
        elif isinstance(tgt, ast.Name):
            if tgt.id == fr.state_param:
                raise AnalysisError("%s:%s rebinds `state`" % (fr.mod.rel, fr.name))
            if tgt.id in fr.env:
                fr.env = {k: v for k, v in fr.env.items() if k != tgt.id}
            s = const_str(value) if value is not None else None
            if s is not None:
                fr.env = dict(fr.env)
                fr.env[tgt.id] = frozenset([s])
        return st

    # ------------------------------------------------------------ refinement
    def pred_of(self, test, fr):
        if isinstance(test, ast.Compare) and len(test.ops) == 1:
            ks = self.keys_of(test.left, fr)
            c = test.comparators[0]
            if ks and len(ks) == 1 and isinstance(c, ast.Constant) and isinstance(test.ops[0], (ast.Eq, ast.NotEq)):
                return ("cmp", ks[0], "==" if isinstance(test.ops[0], ast.Eq) else "!=", c.value)
        if isinstance(test, ast.Call) and isinstance(test.func, ast.Name) and len(test.args) == 1 and self.is_state_name(test.args[0], fr) and not test.keywords:
            name = test.func.id
            deps = self.pure_pred_deps(fr.mod.name, name)
            if deps is not None:
                return ("call", name, "==", True)
        return None

    def pure_pred_deps(self, modname, name):
        """If `name` resolves to a function whose body is `return <expr>` that
        only reads literal state keys (no calls, no stores), return those keys."""
        if name in self.pred_deps:
            return self.pred_deps[name]
        sym = self.repo.resolve(modname, name)
        deps = None
        if sym is not None and sym.kind == "func":
            body = [s for s in sym.node.body if not (isinstance(s, ast.Expr) and isinstance(s.value, ast.Constant))]
            if len(body) == 1 and isinstance(body[0], ast.Return) and body[0].value is not None:
                ok = True
                keys = []
                for n in ast.walk(body[0].value):
                    if isinstance(n, ast.Call):
                        ok = False
                    if isinstance(n, ast.Name) and n.id == STATE:
                        p = getattr(n, "_parent", None)
                        k = self.skey_syntactic(p) if p is not None else None
                        if k is None:
                            ok = False
                        else:
                            keys.append(k)
                if ok and keys:
                    deps = tuple(sorted(set(keys)))
        self.pred_deps[name] = deps
        return deps

    @staticmethod
    def neg(p):
        return (p[0], p[1], "!=" if p[2] == "==" else "==", p[3])

    def refine(self, test, st, fr):
        """(state if test true, state if test false)."""
        if st is None:
            return None, None
        if isinstance(test, ast.UnaryOp) and isinstance(test.op, ast.Not):
            a, b = self.refine(test.operand, st, fr)
            return b, a
        if isinstance(test, ast.BoolOp):
            if isinstance(test.op, ast.And):
                cur = st
                for v in test.values:
                    cur, _ = self.refine(v, cur, fr)
                return cur, st
            cur = st
            for v in test.values:
                _, cur = self.refine(v, cur, fr)
            return st, cur
        t = f = st
        if isinstance(test, ast.Compare) and len(test.ops) == 1:
            op = test.ops[0]
            l, r = test.left, test.comparators[0]
            if isinstance(op, (ast.In, ast.NotIn)) and self.is_state_name(r, fr) and const_str(l) is not None:
                k = const_str(l)
                tt = st.with_D([k], "guard")
                imp = self.IMPLIED.get(k)
                if imp:
                    tt = tt.with_D(imp, "Implied(%s)" % k)
                tt = self.closure(tt)
                return (tt, st) if isinstance(op, ast.In) else (st, tt)
            ks = self.keys_of(l, fr)
            if ks and len(ks) == 1 and isinstance(r, ast.Constant) and type(r.value) is int:
                k = ks[0]
                nz = st.with_F(("NZ", k))
                z = st.with_F(("EQ0", k))
                c = r.value
                if c == 0:
                    if isinstance(op, ast.Eq):
                        t, f = z, nz
                    elif isinstance(op, ast.NotEq):
                        t, f = nz, z
                    elif isinstance(op, ast.Gt):
                        t = nz
                    elif isinstance(op, ast.LtE):
                        f = nz
                elif c >= 1:
                    if isinstance(op, ast.Lt) and c == 1:
                        f = nz  # not (k < 1)  (with k an int)  => k != 0
                    elif isinstance(op, (ast.GtE, ast.Gt, ast.Eq)):
                        t = nz
        elif (
            isinstance(test, ast.Call)
            and isinstance(test.func, ast.Attribute)
            and self.is_state_name(test.func.value, fr)
            and test.func.attr == "get"
            and test.args
            and const_str(test.args[0]) is not None
            and len(test.args) == 1
        ):
            k = const_str(test.args[0])
            tt = st.with_D([k], "guard").with_F(("NZ", k))
            imp = self.IMPLIED.get(k)
            if imp:
                tt = tt.with_D(imp, "Implied(%s)" % k)
            return self.closure(tt), st
        else:
            ks = self.keys_of(test, fr)
            if ks and len(ks) == 1:
                # truthiness of state[k]
                t = st.with_F(("NZ", ks[0]))
        p = self.pred_of(test, fr)
        if p is not None:
            if p in st.P:
                t = t.with_D(st.P[p], "P(%s)" % self.pred_str(p))
            np_ = self.neg(p)
            if np_ in st.P:
                f = f.with_D(st.P[np_], "P(%s)" % self.pred_str(np_))
        return self.closure(t), self.closure(f)

    @staticmethod
    def pred_str(p):
        if p[0] == "cmp":
            return "%s%s%r" % (p[1], p[2], p[3])
        return "%s%s(state)" % ("" if p[2] == "==" else "not ", p[1])

    # ------------------------------------------------------------ statements
    def block(self, stmts, st, fr):
        for s in stmts:
            if st is None:
                return None
            st = self.stmt(s, st, fr)
        if st is not None:
            self.flush(st, fr)
        return st

    def is_plain_store(self, s, fr):
        if not isinstance(s, ast.Assign):
            return False
        for t in s.targets:
            ks = self.keys_of(t, fr)
            if not ks:
                return False
        for n in ast.walk(s.value):
            if isinstance(n, ast.Call):
                if any(self.is_state_name(a, fr) for a in n.args):
                    return False
                if isinstance(n.func, ast.Name) and n.func.id in fr.local_funcs:
                    return False
                if isinstance(n.func, ast.Attribute) and self.is_state_name(n.func.value, fr) and n.func.attr == "setdefault":
                    return False
        return True

    def stmt(self, s, st, fr):
        if not self.is_plain_store(s, fr):
            self.flush(st, fr)
        if isinstance(s, ast.Expr):
            return self.eval(s.value, st, fr)
        if isinstance(s, ast.Assign):
            st = self.eval(s.value, st, fr)
            for t in s.targets:
                if st is None:
                    return None
                st = self.assign_target(t, s.value, st, fr)
            return st
        if isinstance(s, ast.AugAssign):
            st = self.eval(s.value, st, fr)
            if st is None:
                return None
            return self.assign_target(s.target, s.value, st, fr, aug=True)
        if isinstance(s, ast.AnnAssign):
            st = self.eval(s.value, st, fr)
            if s.value is not None and st is not None:
                st = self.assign_target(s.target, s.value, st, fr)
            return st
        if isinstance(s, ast.Return):
            st = self.eval(s.value, st, fr)
            if st is not None:
                fr.returns.append(st)
            return None
        if isinstance(s, ast.Raise):
            st = self.eval(s.exc, st, fr)
            return None
        if isinstance(s, ast.Assert):
            st = self.eval(s.test, st, fr)
            t, f = self.refine(s.test, st, fr)
            return t
        if isinstance(s, (ast.Pass, ast.Import, ast.ImportFrom, ast.Global, ast.Nonlocal)):
            return st
        if isinstance(s, ast.Delete):
            for t in s.targets:
                ks = self.keys_of(t, fr)
                if ks is None:
                    st = self.eval(t, st, fr) if not isinstance(t, ast.Name) else st
                    continue
                if not ks:
                    raise AnalysisError("%s:%s del state[<non-constant>]" % (fr.mod.rel, fr.name))
                if fr.try_depth:
                    raise AnalysisError("%s:%s del state[...] inside try body" % (fr.mod.rel, fr.name))
                for k in ks:
                    st = self.rec_read(fr, t, k, st, kind="del")
                    st = self.kill(st, k)
                    D = dict(st.D)
                    D.pop(k, None)
                    st = AS(D, st.F, st.P, st.E)
            return st
        if isinstance(s, ast.If):
            return self.stmt_if(s, st, fr)
        if isinstance(s, (ast.For, ast.While)):
            return self.stmt_loop(s, st, fr)
        if isinstance(s, ast.Break):
            fr.loops[-1][0].append(st)
            return None
        if isinstance(s, ast.Continue):
            fr.loops[-1][1].append(st)
            return None
        if isinstance(s, ast.FunctionDef):
            fr.local_funcs[s.name] = s
            return st
        if isinstance(s, ast.Try):
            return self.stmt_try(s, st, fr)
        if isinstance(s, ast.With):
            for it in s.items:
                st = self.eval(it.context_expr, st, fr)
            return self.block(s.body, st, fr)
        raise AnalysisError(
            "%s:%s unsupported statement kind %s" % (fr.mod.rel, fr.name, type(s).__name__)
        )

    def stmt_if(self, s, st, fr):
        st = self.eval(s.test, st, fr)
        if st is None:
            return None
        t, f = self.refine(s.test, st, fr)
        mark = len(fr.store_log)
        to = self.block(s.body, t, fr)
        fo = self.block(s.orelse, f, fr)
        out = join(to, fo)
        if out is not None and to is not None and fo is not None:
            p = self.pred_of(s.test, fr)
            if p is not None:
                touched = set(fr.store_log[mark:])
                if not (set(self.pred_keys(p)) & touched):
                    deletable = self.deleted_keys
                    only_t = frozenset(k for k in to.D if k not in out.D and k not in deletable)
                    only_f = frozenset(k for k in fo.D if k not in out.D and k not in deletable)
                    P = dict(out.P)
                    if only_t:
                        P[p] = P.get(p, frozenset()) | only_t
                    if only_f:
                        np_ = self.neg(p)
                        P[np_] = P.get(np_, frozenset()) | only_f
                    out = AS(out.D, out.F, P, out.E)
        return out

    def stmt_try(self, s, st, fr):
        # handlers are entered with the D of the try entry and no facts: D only
        # grows inside a try body (del/reset_state inside one is refused).
        fr.try_depth += 1
        try:
            body = self.block(s.body, st, fr)
        finally:
            fr.try_depth -= 1
        if s.orelse and body is not None:
            body = self.block(s.orelse, body, fr)
        out = body
        hentry = AS(dict(st.D), frozenset(), {}, st.E)
        for h in s.handlers:
            out = join(out, self.block(h.body, hentry, fr))
        if s.finalbody:
            out = self.block(s.finalbody, out, fr) if out is not None else None
            if out is None:
                # finally body still runs on exceptional paths: analyse for reads
                self.block(s.finalbody, hentry, fr)
        return out

    def stmt_loop(self, s, st, fr):
        if isinstance(s, ast.For):
            st = self.eval(s.iter, st, fr)
            if st is None:
                return None
            vals = self._literal_strings(s.iter, fr)
            if isinstance(s.target, ast.Name):
                fr.env = {k: v for k, v in fr.env.items() if k != s.target.id}
                if vals is not None:
                    fr.env = dict(fr.env)
                    fr.env[s.target.id] = vals
            else:
                st = self.assign_target(s.target, None, st, fr)
        for ax in self.axioms:
            r = ax(self, s, st, fr)
            if r is not None:
                st = r
        head = st
        brk = []
        for _ in range(50):
            if isinstance(s, ast.While):
                cur = self.eval(s.test, head, fr)
                t, f = self.refine(s.test, cur, fr)
            else:
                t = head
            fr.loops.append(([], []))
            body_out = self.block(s.body, t, fr)
            b, c = fr.loops.pop()
            brk = b
            new_head = head
            for x in [body_out] + c:
                new_head = join(new_head, x)
            if new_head.key() == head.key():
                break
            head = new_head
        else:
            raise AnalysisError("%s:%s loop did not converge" % (fr.mod.rel, fr.name))
        if isinstance(s, ast.While):
            cur = self.eval(s.test, head, fr)
            _, out = self.refine(s.test, cur, fr)
            if isinstance(s.test, ast.Constant) and s.test.value is True:
                out = None
        else:
            out = head
        if s.orelse:
            out = self.block(s.orelse, out, fr) if out is not None else None
        for x in brk:
            out = join(out, x)
        return out

    axioms = ()

    # ------------------------------------------------------------ driver
    def run_root(self, roots):
        """roots: list of 'module:function' executed in sequence on one state,
        starting from the empty dictionary."""
        self.memo = {}
        self.exit_E = {}
        self.epoch += 1
        self._blocked_cache = None
        self.reads, self.divs, self.dyn = [], [], []
        self.alias_muts = []
        self.functions = OrderedDict()
        self.call_sites = 0
        self.implied_obs.clear()
        self.inv_obs.clear()
        self.gnz_exit.clear()
        self.peeled = 0
        st = AS()
        root_mod = self.repo.mod(roots[0].split(":")[0])
        fr = Frame(root_mod, None, "<root>", (), {})
        for spec in roots:
            m, fn = self.repo.func(spec)
            call = ast.Call(func=ast.Name(id=fn.name, ctx=ast.Load()), args=[ast.Name(id=STATE, ctx=ast.Load())], keywords=[])
            from .core import Sym

            st = self.inline(Sym("func", m.name, fn.name, fn), call, st, fr)
            if st is None:
                break
        return st

    def solve(self, roots, max_rounds=20):
        """Outer fixpoint for Implied / INV (greatest fixpoints from top) and
        GNZ (least: starts empty)."""
        self.IMPLIED, self.INV, self.GNZ = {}, {}, set()
        self.recording = False
        self.run_root(roots)  # discovery pass: which keys exist
        # Implied(a)/INV(a) may contain b only if b is never deleted, and --
        # when a survives reset_state -- b survives it too.
        eligible = set(self.stored_keys)
        cons = frozenset(k for k in self.stored_keys if k not in self.deleted_keys)
        ret = frozenset(self.retained)
        tops = {a: (cons & ret if a in ret else cons) - {a} for a in eligible}
        self.IMPLIED = dict(tops)
        self.INV = dict(tops)
        self.GNZ = set()
        for rnd in range(max_rounds):
            self.run_root(roots)
            newI, newV = {}, {}
            for k in eligible:
                obs = self.implied_obs.get(k)
                if obs:
                    s_ = frozenset.intersection(*obs)
                    newI[k] = (s_ & tops[k] & self.IMPLIED[k]) - {k}
                else:
                    newI[k] = self.IMPLIED[k]
                obs = self.inv_obs.get(k)
                if obs:
                    s_ = frozenset.intersection(*obs)
                    newV[k] = (s_ & tops[k] & self.INV[k]) - {k}
                else:
                    newV[k] = self.INV[k]
            newG = set()
            for k, lst in self.gnz_exit.items():
                if lst and all(ok for (_, ok) in lst) and k not in self.retained and k not in self.deleted_keys:
                    newG.add(k)
            # GNZ must be justified without assuming itself for the same key:
            # gnz_exit is computed with GNZ switched off (closure_nognz).
            if newI == self.IMPLIED and newV == self.INV and newG == self.GNZ:
                self.rounds = rnd + 1
                break
            self.IMPLIED, self.INV, self.GNZ = newI, newV, newG
        else:
            raise AnalysisError("StateFlow invariants did not converge")
        # never-stored-on-this-root keys have vacuous (top) invariants: drop them
        for k in list(self.IMPLIED):
            if not self.implied_obs.get(k):
                self.IMPLIED[k] = frozenset()
            if not self.inv_obs.get(k):
                self.INV[k] = frozenset()
        self.recording = True
        final = self.run_root(roots)
        return final


# ---------------------------------------------------------------------------
# Axiom A1: "the first data unit of a sequence is a sequence header".
# Peels the first iteration of parse_sequence's main loop with the
# is_seq_header branch forced.  Its side conditions are checked by
# vcheck.props.a1 (called from C01/C02); if they fail the axiom is withdrawn.
# ---------------------------------------------------------------------------

def _is_call_on_state(node, name):
    return (
        isinstance(node, ast.Call)
        and isinstance(node.func, ast.Name)
        and node.func.id == name
        and any(isinstance(a, ast.Name) and a.id == STATE for a in node.args)
    )


def find_a1_loop(fn):
    """The `while not is_end_of_sequence(state):` loop of parse_sequence whose
    body starts with `if is_seq_header(state):`.  None if the shape is gone."""
    for s in fn.body:
        if (
            isinstance(s, ast.While)
            and isinstance(s.test, ast.UnaryOp)
            and isinstance(s.test.op, ast.Not)
            and _is_call_on_state(s.test.operand, "is_end_of_sequence")
            and s.body
            and isinstance(s.body[0], ast.If)
            and _is_call_on_state(s.body[0].test, "is_seq_header")
        ):
            return s
    return None


def axiom_A1(sf, loop, st, fr):
    if fr.name != "parse_sequence" or fr.fn is None:
        return None
    target = find_a1_loop(fr.fn)
    if target is None:
        raise AnalysisError(
            "axiom A1 cannot be applied: %s:parse_sequence no longer has the "
            "`while not is_end_of_sequence(state): if is_seq_header(state): ...` shape" % fr.mod.rel
        )
    if loop is not target:
        return None
    first = loop.body[0]
    cur = sf.eval(loop.test, st, fr)
    t, _ = sf.refine(loop.test, cur, fr)
    cur = sf.eval(first.test, t, fr)
    tt, _ = sf.refine(first.test, cur, fr)
    fr.loops.append(([], []))
    out = sf.block(first.body, tt, fr)
    out = sf.block(loop.body[1:], out, fr) if out is not None else None
    b, c = fr.loops.pop()
    if b or c:
        raise AnalysisError("axiom A1: break/continue in the peeled iteration is not modelled")
    sf.peeled += 1
    return out
