"""E4 (syntax-directed form): intraprocedural must/may event-flow analysis.

State at a program point: (must, may) -- the event tags that have happened on
*every* path to the point / on *some* path to the point.  Events are produced
by a callback invoked on every Call node (and optionally other nodes) in
evaluation order; obligations are checked by a second callback that receives
the node and the state.  Covers the statement kinds the repository uses;
anything else is an AnalysisError (exit 2).

Typical uses: must-pass-through ("every normal exit of f has passed a call to
g"), dominance ("at every call of h, event E has happened on all paths"),
ordering and exclusion ("no read after finish": E not in may).
"""
import ast

from .core import AnalysisError
from .locals_da import handler_matches, may_raise_stmt


class FS(object):
    __slots__ = ("must", "may")

    def __init__(self, must=frozenset(), may=frozenset()):
        self.must = must
        self.may = may

    def add(self, *tags):
        t = frozenset(tags)
        return FS(self.must | t, self.may | t)

    def drop(self, *tags):
        t = frozenset(tags)
        return FS(self.must - t, self.may - t)

    def key(self):
        return (self.must, self.may)


def fjoin(a, b):
    if a is None:
        return b
    if b is None:
        return a
    return FS(a.must & b.must, a.may | b.may)


class MustFlow(object):
    def __init__(self, fn, on_node, entry=None, node_types=(ast.Call,)):
        """on_node(node, state) -> state (may add/drop tags, may record
        obligations by side effect)."""
        self.fn = fn
        self.on_node = on_node
        self.node_types = node_types
        self.exits = []  # (kind, node, state) kind in return|fallthrough|raise
        self.loops = []
        self.entry = entry or FS()

    def run(self):
        out = self.block(self.fn.body, self.entry)
        if out is not None:
            self.exits.append(("fallthrough", None, out))
        return self

    def normal_exit_state(self):
        st = None
        for kind, node, s in self.exits:
            if kind in ("return", "fallthrough"):
                st = fjoin(st, s)
        return st

    # ---- expressions
    def expr(self, e, st):
        if e is None or st is None:
            return st
        if isinstance(e, ast.BoolOp):
            st = self.expr(e.values[0], st)
            cur = st
            for v in e.values[1:]:
                cur = self.expr(v, cur)
            return fjoin(st, cur)
        if isinstance(e, ast.IfExp):
            st = self.expr(e.test, st)
            return fjoin(self.expr(e.body, st), self.expr(e.orelse, st))
        if isinstance(e, (ast.Lambda,)):
            return st
        if isinstance(e, (ast.ListComp, ast.SetComp, ast.GeneratorExp, ast.DictComp)):
            cur = st
            for g in e.generators:
                cur = self.expr(g.iter, cur)
                for c in g.ifs:
                    cur = self.expr(c, cur)
            if isinstance(e, ast.DictComp):
                cur = self.expr(e.key, cur)
                cur = self.expr(e.value, cur)
            else:
                cur = self.expr(e.elt, cur)
            return fjoin(st, cur)
        if isinstance(e, ast.Call):
            st = self.expr(e.func, st)
            for a in e.args:
                st = self.expr(a, st)
            for k in e.keywords:
                st = self.expr(k.value, st)
            if isinstance(e, self.node_types):
                st = self.on_node(e, st)
            return st
        for c in ast.iter_child_nodes(e):
            if isinstance(c, ast.expr):
                st = self.expr(c, st)
        if isinstance(e, self.node_types):
            st = self.on_node(e, st)
        return st

    # ---- statements
    def block(self, stmts, st):
        for s in stmts:
            if st is None:
                return None
            st = self.stmt(s, st)
        return st

    def stmt(self, s, st):
        if isinstance(s, self.node_types) and isinstance(s, ast.stmt):
            st = self.on_node(s, st)
            if st is None:
                return None
        if isinstance(s, ast.Expr):
            return self.expr(s.value, st)
        if isinstance(s, ast.Assign):
            st = self.expr(s.value, st)
            for t in s.targets:
                st = self.expr(t, st)
            return st
        if isinstance(s, ast.AugAssign):
            st = self.expr(s.target, st)
            return self.expr(s.value, st)
        if isinstance(s, ast.AnnAssign):
            return self.expr(s.value, st)
        if isinstance(s, ast.Return):
            st = self.expr(s.value, st)
            if st is not None:
                self.exits.append(("return", s, st))
            return None
        if isinstance(s, ast.Raise):
            st = self.expr(s.exc, st)
            if st is not None:
                self.exits.append(("raise", s, st))
            return None
        if isinstance(s, ast.Assert):
            return self.expr(s.test, st)
        if isinstance(s, (ast.Pass, ast.Global, ast.Nonlocal, ast.Import, ast.ImportFrom, ast.FunctionDef, ast.ClassDef)):
            return st
        if isinstance(s, ast.Delete):
            for t in s.targets:
                st = self.expr(t, st)
            return st
        if isinstance(s, ast.If):
            st = self.expr(s.test, st)
            return fjoin(self.block(s.body, st), self.block(s.orelse, st))
        if isinstance(s, (ast.For, ast.While)):
            if isinstance(s, ast.For):
                st = self.expr(s.iter, st)
            head = st
            brk = []
            for _ in range(20):
                t = self.expr(s.test, head) if isinstance(s, ast.While) else head
                self.loops.append(([], []))
                saved_exits = len(self.exits)
                out = self.block(s.body, t)
                b, c = self.loops.pop()
                brk = b
                new = head
                for x in [out] + c:
                    new = fjoin(new, x)
                if new.key() == head.key():
                    break
                # re-run: discard exits recorded by the non-final pass
                del self.exits[saved_exits:]
                head = new
            else:
                raise AnalysisError("mustflow: loop did not converge")
            ex = self.expr(s.test, head) if isinstance(s, ast.While) else head
            if isinstance(s, ast.While) and isinstance(s.test, ast.Constant) and s.test.value is True:
                ex = None
            if s.orelse and ex is not None:
                ex = self.block(s.orelse, ex)
            for x in brk:
                ex = fjoin(ex, x)
            return ex
        if isinstance(s, ast.Break):
            self.loops[-1][0].append(st)
            return None
        if isinstance(s, ast.Continue):
            self.loops[-1][1].append(st)
            return None
        if isinstance(s, ast.With):
            for it in s.items:
                st = self.expr(it.context_expr, st)
            return self.block(s.body, st)
        if isinstance(s, ast.Try):
            before = []
            cur = st
            for b in s.body:
                before.append((b, cur))
                if cur is None:
                    break
                cur = self.stmt(b, cur)
            body_out = cur
            # a handler may be entered after any prefix of the body (including
            # mid-statement): must = must at try entry, may = may at the end
            may_all = st.may
            for _, x in before:
                if x is not None:
                    may_all = may_all | x.may
            if body_out is not None:
                may_all = may_all | body_out.may
            if s.orelse and body_out is not None:
                body_out = self.block(s.orelse, body_out)
            out = body_out
            for h in s.handlers:
                reachable = any(
                    x is not None and handler_matches(h, may_raise_stmt(b)) for b, x in before
                )
                if not reachable:
                    continue
                out = fjoin(out, self.block(h.body, FS(st.must, may_all)))
            if s.finalbody:
                if out is not None:
                    out = self.block(s.finalbody, out)
                else:
                    self.block(s.finalbody, FS(st.must, may_all))
            return out
        raise AnalysisError("mustflow: unsupported statement %s" % type(s).__name__)
