"""Module-level mutable state: which functions mutate a container bound at
module level (hidden state that makes a function's result depend on the
history of earlier calls)."""
import ast

from .core import dotted, short

MUT_METHODS = {"append", "extend", "insert", "pop", "remove", "clear", "update", "setdefault", "add", "discard", "popitem", "appendleft", "popleft", "sort", "reverse"}
CTORS = {"dict", "list", "set", "OrderedDict", "defaultdict", "deque", "bytearray", "Counter", "WeakKeyDictionary", "WeakValueDictionary"}


def module_containers(mod):
    """module-level names bound (at module level) to a mutable container display/constructor"""
    out = {}
    for s in mod.tree.body:
        if isinstance(s, ast.Assign) and len(s.targets) == 1 and isinstance(s.targets[0], ast.Name):
            v = s.value
            if isinstance(v, (ast.Dict, ast.List, ast.Set, ast.ListComp, ast.DictComp, ast.SetComp)) or (isinstance(v, ast.Call) and (dotted(v.func) or "").split(".")[-1] in CTORS):
                out[s.targets[0].id] = s
    return out


def _local_names(fn):
    names = set(a.arg for a in fn.args.posonlyargs + fn.args.args + fn.args.kwonlyargs)
    if fn.args.vararg:
        names.add(fn.args.vararg.arg)
    if fn.args.kwarg:
        names.add(fn.args.kwarg.arg)
    globs = set()
    for n in ast.walk(fn):
        if isinstance(n, ast.Global):
            globs.update(n.names)
        if isinstance(n, ast.Name) and isinstance(n.ctx, (ast.Store, ast.Del)):
            names.add(n.id)
    return names - globs, globs


def runtime_mutations(mod):
    """[(function qualname, global name, node, how)] for every mutation, inside
    a function or method body, of a module-level container or rebinding of a
    module-level name through `global`."""
    conts = module_containers(mod)
    out = []

    def visit_fn(fn, qual):
        locs, globs = _local_names(fn)
        for n in ast.walk(fn):
            if isinstance(n, (ast.FunctionDef, ast.AsyncFunctionDef, ast.Lambda)) and n is not fn:
                continue
            tg = []
            if isinstance(n, ast.Assign):
                tg = n.targets
            elif isinstance(n, ast.AugAssign):
                tg = [n.target]
            elif isinstance(n, ast.Delete):
                tg = n.targets
            for t in tg:
                if isinstance(t, ast.Subscript) and isinstance(t.value, ast.Name) and t.value.id in conts and t.value.id not in locs:
                    out.append((qual, t.value.id, n, "item store/delete"))
                if isinstance(t, ast.Name) and t.id in globs:
                    out.append((qual, t.id, n, "rebinding through `global`"))
            if isinstance(n, ast.Call) and isinstance(n.func, ast.Attribute) and n.func.attr in MUT_METHODS and isinstance(n.func.value, ast.Name) and n.func.value.id in conts and n.func.value.id not in locs:
                out.append((qual, n.func.value.id, n, ".%s()" % n.func.attr))

    for s in mod.tree.body:
        if isinstance(s, ast.FunctionDef):
            visit_fn(s, s.name)
            for inner in ast.walk(s):
                if isinstance(inner, ast.FunctionDef) and inner is not s:
                    visit_fn(inner, "%s.<locals>.%s" % (s.name, inner.name))
        elif isinstance(s, ast.ClassDef):
            for f in s.body:
                if isinstance(f, ast.FunctionDef):
                    visit_fn(f, "%s.%s" % (s.name, f.name))
    return out


CACHE_DECORATORS = {"lru_cache", "cache", "cached_property", "memoize", "memoized", "memoise", "memoised"}


def other_hidden_state(mod):
    """memoising decorators, mutated mutable default arguments, function
    attributes used as storage, class-level containers mutated through
    instances/classes."""
    out = []
    fn_names = set(s.name for s in mod.tree.body if isinstance(s, ast.FunctionDef))
    for fn in ast.walk(mod.tree):
        if not isinstance(fn, (ast.FunctionDef, ast.AsyncFunctionDef)):
            continue
        for d in fn.decorator_list:
            name = (dotted(d.func) if isinstance(d, ast.Call) else dotted(d)) or ""
            if name.split(".")[-1] in CACHE_DECORATORS:
                out.append((fn.name, "@" + name, d, "memoising decorator"))
        # instance dictionaries of objects handed in by the caller used as side storage: p.__dict__, vars(p),
        # setattr(p, ...), object.__setattr__(p, ...) with p a parameter (objects the function creates itself are its own)
        fparams = set(a.arg for a in fn.args.posonlyargs + fn.args.args + fn.args.kwonlyargs)
        # parameters of enclosing functions count as well (closures such as a decorator's wrapper)
        anc = getattr(fn, "_parent", None)
        while anc is not None:
            if isinstance(anc, (ast.FunctionDef, ast.AsyncFunctionDef)):
                fparams |= set(a.arg for a in anc.args.posonlyargs + anc.args.args + anc.args.kwonlyargs)
            anc = getattr(anc, "_parent", None)

        def _root(e):
            while isinstance(e, (ast.Attribute, ast.Subscript)):
                e = e.value
            return e.id if isinstance(e, ast.Name) else None

        for n in ast.walk(fn):
            if isinstance(n, ast.Attribute) and n.attr == "__dict__" and _root(n.value) in fparams:
                out.append((fn.name, "%s.__dict__" % (dotted(n.value) or "?"), n, "instance __dict__ of a caller's object used as side storage (survives whatever clears the object's declared entries)"))
            elif isinstance(n, ast.Call) and dotted(n.func) in ("vars", "setattr", "object.__setattr__") and n.args and _root(n.args[0]) in fparams:
                out.append((fn.name, "%s(%s, ...)" % (dotted(n.func), dotted(n.args[0]) or "?"), n, "attributes attached at run time to an object handed in by the caller"))
            elif isinstance(n, ast.Call) and dotted(n.func) == "getattr" and len(n.args) >= 2 and isinstance(n.args[1], ast.Constant) and n.args[1].value == "__dict__" and _root(n.args[0]) in fparams:
                out.append((fn.name, "getattr(%s, '__dict__')" % (dotted(n.args[0]) or "?"), n, "instance __dict__ of a caller's object used as side storage"))
        # mutable defaults that the body mutates
        args = fn.args.posonlyargs + fn.args.args
        defaults = dict(zip([a.arg for a in args][len(args) - len(fn.args.defaults):], fn.args.defaults))
        defaults.update({a.arg: d for a, d in zip(fn.args.kwonlyargs, fn.args.kw_defaults) if d is not None})
        for p, d in defaults.items():
            if isinstance(d, (ast.Dict, ast.List, ast.Set)) or (isinstance(d, ast.Call) and (dotted(d.func) or "").split(".")[-1] in CTORS):
                rebound = any(isinstance(n, ast.Name) and n.id == p and isinstance(n.ctx, ast.Store) for n in ast.walk(fn))
                for n in ast.walk(fn):
                    if isinstance(n, ast.Call) and isinstance(n.func, ast.Attribute) and n.func.attr in MUT_METHODS and isinstance(n.func.value, ast.Name) and n.func.value.id == p and not rebound:
                        out.append((fn.name, p, n, "mutable default argument mutated by .%s()" % n.func.attr))
                    if isinstance(n, (ast.Assign, ast.AugAssign)):
                        for t in (n.targets if isinstance(n, ast.Assign) else [n.target]):
                            if isinstance(t, ast.Subscript) and isinstance(t.value, ast.Name) and t.value.id == p and not rebound:
                                out.append((fn.name, p, n, "mutable default argument mutated by item store"))
        # function attributes as storage
        for n in ast.walk(fn):
            if isinstance(n, (ast.Assign, ast.AugAssign)):
                for t in (n.targets if isinstance(n, ast.Assign) else [n.target]):
                    if isinstance(t, ast.Attribute) and isinstance(t.value, ast.Name) and t.value.id in fn_names:
                        out.append((fn.name, "%s.%s" % (t.value.id, t.attr), n, "function attribute used as storage"))
                    if isinstance(t, ast.Subscript) and isinstance(t.value, ast.Attribute) and isinstance(t.value.value, ast.Name) and t.value.value.id in fn_names:
                        out.append((fn.name, "%s.%s" % (t.value.value.id, t.value.attr), n, "function attribute used as storage"))
    for cls in ast.walk(mod.tree):
        if not isinstance(cls, ast.ClassDef):
            continue
        conts = {}
        for s in cls.body:
            if isinstance(s, ast.Assign) and len(s.targets) == 1 and isinstance(s.targets[0], ast.Name):
                v = s.value
                if isinstance(v, (ast.Dict, ast.List, ast.Set)) or (isinstance(v, ast.Call) and (dotted(v.func) or "").split(".")[-1] in CTORS):
                    conts[s.targets[0].id] = s
        if not conts:
            continue
        rebound = set()
        for f in cls.body:
            if isinstance(f, ast.FunctionDef) and f.name == "__init__":
                for n in ast.walk(f):
                    if isinstance(n, ast.Assign):
                        for t in n.targets:
                            if isinstance(t, ast.Attribute) and isinstance(t.value, ast.Name) and t.value.id == "self":
                                rebound.add(t.attr)
        for f in cls.body:
            if not isinstance(f, ast.FunctionDef):
                continue
            for n in ast.walk(f):
                base = None
                how = None
                if isinstance(n, ast.Call) and isinstance(n.func, ast.Attribute) and n.func.attr in MUT_METHODS and isinstance(n.func.value, ast.Attribute):
                    base, how = n.func.value, ".%s()" % n.func.attr
                if isinstance(n, (ast.Assign, ast.AugAssign)):
                    for t in (n.targets if isinstance(n, ast.Assign) else [n.target]):
                        if isinstance(t, ast.Subscript) and isinstance(t.value, ast.Attribute):
                            base, how = t.value, "item store"
                if base is not None and base.attr in conts and base.attr not in rebound and isinstance(base.value, ast.Name) and base.value.id in ("self", "cls", cls.name):
                    out.append(("%s.%s" % (cls.name, f.name), "%s.%s" % (cls.name, base.attr), n, "class-level container mutated (%s)" % how))
    return out


FIXTURE = '''
_MEMO = {}
_SEEN = []
class K(object):
    shared = {}
    def put(self, k, v):
        self.shared[k] = v
def f(x, acc=[]):
    acc.append(x)
    if x not in _MEMO:
        _MEMO[x] = x * 2
    _SEEN.append(x)
    return _MEMO[x]
def g(x):
    global _COUNT
    _COUNT = x
    g.last = x
def h(state):
    state.__dict__.setdefault("memo", {})[1] = 2
'''


def selfcheck():
    """the analysis must find every construct of the fixture (a rule whose
    expected count on the repository is zero needs a positive example)"""
    from .core import AnalysisError

    class M(object):
        pass

    m = M()
    m.tree = ast.parse(FIXTURE)
    got = sorted(set((q, g) for q, g, n, how in runtime_mutations(m) + other_hidden_state(m)))
    want = [("K.put", "K.shared"), ("f", "_MEMO"), ("f", "_SEEN"), ("f", "acc"), ("g", "_COUNT"), ("g", "g.last"), ("h", "state.__dict__")]
    if got != want:
        raise AnalysisError("hidden-state analysis self-check failed: %s != %s" % (got, want))
    return len(want)


def rule(repo, res, rid, modules, sanctioned=None, what=""):
    """one obligation per module: no function keeps state between calls"""
    from .core import short

    sanctioned = sanctioned or {}
    n_fix = selfcheck()
    res.ok(rid, "hidden-state:fixture", "vcheck/globals_state.py", by="analysis finds all %d constructs of its positive fixture" % n_fix)
    for name in modules:
        m = repo.mod(name)
        found = runtime_mutations(m) + other_hidden_state(m)
        bad = []
        for q, g, n, how in found:
            if (m.name.split("vc2_conformance.")[-1], g) in sanctioned:
                continue
            bad.append("%s: %s (%s)" % (q, g, how))
        res.check(not bad, rid, "no-state-between-calls:%s" % name, m.rel, "functions of this module keep state between calls -- %s -- so %s can depend on what was computed earlier in the same process" % ("; ".join(sorted(set(bad))), what or "their results"), by="no module-level container is mutated by a function, no memoising decorator, no mutated default, no function attribute, no shared class-level container")


# ---------------------------------------------------------------------------
# parameter mutation (an input shared between callers must not be edited)
# ---------------------------------------------------------------------------

class ParamMutation(object):
    """does function f mutate (the object passed as) its i-th parameter?  Direct
    item/attribute stores and mutator-method calls on the parameter or on
    subscripts of it, through one-step local aliases, and transitively through
    resolved callees that receive the parameter (or a subscript of it)."""

    def __init__(self, repo, follow_prefixes=("vc2_conformance.",)):
        self.repo = repo
        self.follow = follow_prefixes
        self.memo = {}

    def root_name(self, e):
        while isinstance(e, (ast.Subscript, ast.Attribute)):
            e = e.value
        return e.id if isinstance(e, ast.Name) else None

    def mutations(self, m, fn, index, stack=()):
        key = (m.name, fn.name, fn.lineno, index)
        if key in self.memo:
            return self.memo[key]
        if key in stack:
            return []
        args = fn.args.posonlyargs + fn.args.args
        if index >= len(args):
            return []
        pname = args[index].arg
        names = {pname}
        rebinds = sorted(n.lineno for n in ast.walk(fn) if isinstance(n, ast.Name) and n.id == pname and isinstance(n.ctx, ast.Store))
        first_rebind = rebinds[0] if rebinds else None
        # one-step aliases: x = param / x = param[...]
        for a in ast.walk(fn):
            if isinstance(a, ast.Assign) and len(a.targets) == 1 and isinstance(a.targets[0], ast.Name) and self.root_name(a.value) == pname and isinstance(a.value, (ast.Name, ast.Subscript)) and (first_rebind is None or a.lineno < first_rebind):
                names.add(a.targets[0].id)
        out = []

        def live(node):
            return first_rebind is None or node.lineno < first_rebind or self.root_name(node) != pname

        for n in ast.walk(fn):
            tg = []
            if isinstance(n, ast.Assign):
                tg = n.targets
            elif isinstance(n, ast.AugAssign):
                tg = [n.target]
            elif isinstance(n, ast.Delete):
                tg = n.targets
            for t in tg:
                for y in (t.elts if isinstance(t, (ast.Tuple, ast.List)) else [t]):
                    if isinstance(y, (ast.Subscript, ast.Attribute)) and self.root_name(y) in names and live(y):
                        out.append((m, fn, n, "stores into `%s`" % short(y, 50)))
            if isinstance(n, ast.Call) and isinstance(n.func, ast.Attribute) and n.func.attr in MUT_METHODS and self.root_name(n.func.value) in names and live(n.func.value):
                out.append((m, fn, n, "calls .%s() on `%s`" % (n.func.attr, short(n.func.value, 40))))
            if isinstance(n, ast.Call) and isinstance(n.func, ast.Name):
                tgt = self.repo.resolve(m.name, n.func.id)
                if tgt is None or getattr(tgt, "kind", None) != "func" or not tgt.mod.startswith(self.follow):
                    continue
                for j, a in enumerate(n.args):
                    if isinstance(a, (ast.Name, ast.Subscript)) and self.root_name(a) in names and live(a):
                        sub = self.mutations(self.repo.mod(tgt.mod), tgt.node, j, stack + (key,))
                        for sm, sf, sn, how in sub[:1]:
                            out.append((m, fn, n, "passes `%s` to %s, which %s (%s:%d)" % (short(a, 30), tgt.name, how, sm.rel, sn.lineno)))
        self.memo[key] = out
        return out
