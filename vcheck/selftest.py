"""Self-test of the checkers on seeded variants of the repository.

For a property, every registered variant is applied to a scratch copy of the
package (tempfile directory outside /repo and /verif, removed afterwards) and
the property's check is run on it in-process:

  kind "break"  : the check must report a violation whose finding id contains
                  `expect` (it must name the broken instance);
  kind "benign" : behaviour-preserving edit; the check must stay silent
                  (no new violation beyond those of the unmodified base).

A variant whose anchor text is no longer present in the tree under test is
*skipped* and listed as such (the tree was edited; the self-test of the checker
is then simply less complete) -- it is never reported as a property violation.
A variant that applies but is not detected, or a benign variant that fires,
is an ANALYSIS-ERROR: the checker itself is broken.
"""
import importlib
import os
import shutil
import tempfile
from collections import OrderedDict
from concurrent.futures import ProcessPoolExecutor

from .core import AnalysisError, Repo

PKG = "vc2_conformance"


class Variant(object):
    def __init__(self, name, kind, edits, expect=None, note=""):
        self.name = name
        self.kind = kind
        self.edits = edits  # list of (relative file, old, new)
        self.expect = expect
        self.note = note


def V(name, kind, file, old, new, expect=None, note=""):
    return Variant(name, kind, [(file, old, new)], expect, note)


def apply_variant(root, variant):
    """returns True if applied, False if an anchor is missing."""
    staged = []
    for e in variant.edits:
        rel, old, new = e[0], e[1], e[2]
        every = len(e) > 3 and e[3] == "all"
        path = os.path.join(root, rel)
        if not os.path.exists(path):
            return False
        s = None
        for p_, s_ in staged:
            if p_ == path:
                s = s_
        if s is None:
            with open(path, encoding="utf-8") as f:
                s = f.read()
        if (s.count(old) < 1) if every else (s.count(old) != 1):
            return False
        staged = [(p_, s_) for p_, s_ in staged if p_ != path]
        staged.append((path, s.replace(old, new)))
    for path, s in staged:
        with open(path, "w", encoding="utf-8") as f:
            f.write(s)
    return True


def _findings(pid, root):
    mod = importlib.import_module("vcheck.props." + pid.lower())
    repo = Repo(root)
    res = mod.check(repo, "quick")
    from . import report

    known = set(k["id"] for k in report.load_known().get("known", []))
    return sorted(res.finding_id(o) for o in res.violations() if res.finding_id(o) not in known)


def _run_one(args):
    pid, src_root, idx = args
    variants = load_variants(pid)
    v = variants[idx]
    tmp = tempfile.mkdtemp(prefix="vcheck-variant-")
    try:
        shutil.copytree(os.path.join(src_root, PKG), os.path.join(tmp, PKG), ignore=shutil.ignore_patterns("__pycache__"))
        if not apply_variant(tmp, v):
            return (v.name, v.kind, "skipped", [])
        try:
            f = _findings(pid, tmp)
        except AnalysisError as e:
            # a broken variant may legitimately make the analysis refuse (exit 2):
            # counted as detected for 'break' (fail-closed), as failure for 'benign'
            return (v.name, v.kind, "analysis-error", [str(e)])
        return (v.name, v.kind, "ran", f)
    finally:
        shutil.rmtree(tmp, ignore_errors=True)


def load_variants(pid):
    try:
        m = importlib.import_module("vcheck.variants." + pid.lower())
    except ImportError:
        return []
    return list(m.VARIANTS)


def run_for(pid, repo_root, quiet=False, jobs=None):
    variants = load_variants(pid)
    if not variants:
        return {"selftest_variants": 0}
    base = set(_findings(pid, repo_root))
    jobs = jobs or min(int(os.environ.get("VCHECK_JOBS", "8")), len(variants), os.cpu_count() or 1)
    results = []
    if jobs > 1:
        with ProcessPoolExecutor(max_workers=jobs) as ex:
            results = list(ex.map(_run_one, [(pid, repo_root, i) for i in range(len(variants))]))
    else:
        results = [_run_one((pid, repo_root, i)) for i in range(len(variants))]
    detected, silent, skipped, failures = [], [], [], []
    for v, (name, kind, status, f) in zip(variants, results):
        new = [x for x in f if x not in base]
        if status == "skipped":
            skipped.append(name)
        elif kind == "break":
            if status == "analysis-error" or any(v.expect in x for x in new):
                detected.append(name)
            else:
                failures.append("seeded break %r not detected (expected a finding containing %r, got %s)" % (name, v.expect, new[:3]))
        else:
            if status == "analysis-error" or new:
                failures.append("benign variant %r raised an alarm: %s" % (name, (f if status == "analysis-error" else new)[:3]))
            else:
                silent.append(name)
    if not quiet:
        print(
            "  self-test: %d variants: %d breaks detected, %d benign silent, %d skipped (anchor absent)"
            % (len(variants), len(detected), len(silent), len(skipped))
        )
        for s in skipped:
            print("    skipped: %s" % s)
    if failures:
        raise AnalysisError("checker self-test failed: " + "; ".join(failures))
    return OrderedDict(
        selftest_variants=len(variants),
        selftest_breaks_detected=detected,
        selftest_benign_silent=silent,
        selftest_skipped=skipped,
    )
