"""Light local type inference: which expressions are (hash-ordered) sets, and
where their iteration order can leak into an ordered result.

Used by C24 (determinism across hash seeds / processes).  Sets whose elements
are ints or IntEnum members iterate in an order that does not depend on
PYTHONHASHSEED or object addresses; sets of strings or of plain objects do.
"""
import ast

from .core import dotted, short

SET_CTORS = {"set", "frozenset"}
SET_METHODS_RET_SET = {"union", "intersection", "difference", "symmetric_difference", "copy"}
ORDER_FREE_CONSUMERS = {"sorted", "min", "max", "sum", "any", "all", "len", "set", "frozenset", "bool"}


class SetTypes(object):
    def __init__(self, repo):
        self.repo = repo
        self.set_funcs = set()  # qualified "mod:func" / "mod:Class.method" returning sets
        self._fixpoint()

    # ---- which functions return sets
    def _functions(self):
        if not hasattr(self, "_fn_cache"):
            self._fn_cache = []
            self._by_name = {}
            for m in self.repo.modules.values():
                for n in ast.walk(m.tree):
                    if isinstance(n, (ast.FunctionDef, ast.AsyncFunctionDef)):
                        self._fn_cache.append((m, n))
                        self._by_name[n.name] = self._by_name.get(n.name, 0) + 1
        return self._fn_cache

    def _fixpoint(self):
        changed = True
        while changed:
            changed = False
            for m, fn in self._functions():
                q = "%s:%s" % (m.name, fn.name)
                if q in self.set_funcs:
                    continue
                rets = [r for r in self._own_nodes(fn) if isinstance(r, ast.Return)]
                if rets and all(r.value is not None and self.is_set(r.value, fn, m) for r in rets):
                    self.set_funcs.add(q)
                    changed = True

    @staticmethod
    def _own_nodes(fn):
        stack = list(fn.body)
        while stack:
            n = stack.pop()
            yield n
            if isinstance(n, (ast.FunctionDef, ast.AsyncFunctionDef, ast.Lambda, ast.ClassDef)):
                continue
            stack.extend(ast.iter_child_nodes(n))

    def returns_set(self, call, m):
        f = call.func
        name = f.attr if isinstance(f, ast.Attribute) else (f.id if isinstance(f, ast.Name) else None)
        if name is None:
            return False
        if isinstance(f, ast.Name):
            tgt = self.repo.resolve(m.name, name)
            if tgt is not None and getattr(tgt, "kind", None) == "func":
                return "%s:%s" % (tgt.mod if tgt.mod.startswith("vc2") else tgt.mod, tgt.name) in self.set_funcs or any(q.endswith(":%s" % tgt.name) and q.split(":")[0].endswith(tgt.mod) for q in self.set_funcs)
            return False
        # method call: by method name, if every function of that name in the repo returns a set
        cands = [q for q in self.set_funcs if q.endswith(":%s" % name)]
        self._functions()
        return bool(cands) and len(cands) == self._by_name.get(name, 0)

    def is_set(self, e, fn, m, depth=0):
        if depth > 6:
            return False
        if isinstance(e, (ast.Set, ast.SetComp)):
            return True
        if isinstance(e, ast.Call):
            d = dotted(e.func)
            if d in SET_CTORS:
                return True
            if isinstance(e.func, ast.Attribute) and e.func.attr in SET_METHODS_RET_SET and self.is_set(e.func.value, fn, m, depth + 1):
                return True
            if self.returns_set(e, m):
                return True
            return False
        if isinstance(e, ast.BinOp) and isinstance(e.op, (ast.BitOr, ast.BitAnd, ast.Sub, ast.BitXor)):
            return self.is_set(e.left, fn, m, depth + 1) or self.is_set(e.right, fn, m, depth + 1)
        if isinstance(e, ast.IfExp):
            return self.is_set(e.body, fn, m, depth + 1) and self.is_set(e.orelse, fn, m, depth + 1)
        if isinstance(e, ast.Name) and fn is not None:
            defs = []
            for n in self._own_nodes(fn):
                if isinstance(n, ast.Assign):
                    for t in n.targets:
                        if isinstance(t, ast.Name) and t.id == e.id:
                            defs.append(n.value)
                elif isinstance(n, ast.AugAssign) and isinstance(n.target, ast.Name) and n.target.id == e.id:
                    if not isinstance(n.op, (ast.BitOr, ast.BitAnd, ast.Sub, ast.BitXor)):
                        return False
                elif isinstance(n, (ast.For, ast.comprehension)):
                    for x in ast.walk(n.target):
                        if isinstance(x, ast.Name) and x.id == e.id:
                            return False
            params = set(a.arg for a in fn.args.posonlyargs + fn.args.args + fn.args.kwonlyargs) if hasattr(fn, "args") else set()
            if e.id in params and not defs:
                return False
            return bool(defs) and all(self.is_set(d, fn, m, depth + 1) for d in defs)
        if isinstance(e, ast.Attribute) and isinstance(e.value, ast.Name) and e.value.id == "self" and fn is not None:
            # self.x: every store to self.x in the class is set-typed
            cls = getattr(fn, "_parent", None)
            if isinstance(cls, ast.ClassDef):
                defs = []
                for f2 in cls.body:
                    if isinstance(f2, ast.FunctionDef):
                        for n in ast.walk(f2):
                            if isinstance(n, ast.Assign):
                                for t in n.targets:
                                    if isinstance(t, ast.Attribute) and t.attr == e.attr and dotted(t.value) == "self":
                                        defs.append((n.value, f2))
                return bool(defs) and all(self.is_set(v, f2, m, depth + 1) for v, f2 in defs)
        return False

    # ---- order-sensitive uses
    def ordered_uses(self, m):
        """[(function node or None, node, description)] where the iteration
        order of a set-typed expression flows into an ordered construct."""
        out = []
        for fn in [n for n in ast.walk(m.tree) if isinstance(n, (ast.FunctionDef, ast.AsyncFunctionDef))]:
            for n in self._own_nodes(fn):
                if isinstance(n, ast.For) and self.is_set(n.iter, fn, m):
                    if self._body_order_sensitive(n.body):
                        out.append((fn, n, "for-loop over a set with an order-sensitive body"))
                if isinstance(n, (ast.ListComp, ast.GeneratorExp, ast.DictComp)):
                    if any(self.is_set(g.iter, fn, m) for g in n.generators):
                        if not self._consumed_order_free(n):
                            out.append((fn, n, "ordered comprehension over a set"))
                if isinstance(n, ast.Call):
                    d = dotted(n.func)
                    if d in ("list", "tuple", "next", "enumerate", "iter", "zip", "map", "OrderedDict") and n.args and self.is_set(n.args[0] if d != "next" else getattr(n.args[0], "args", [n.args[0]])[0] if isinstance(n.args[0], ast.Call) else n.args[0], fn, m):
                        if not self._consumed_order_free(n):
                            out.append((fn, n, "%s() of a set" % d))
                    if isinstance(n.func, ast.Attribute) and n.func.attr == "join" and n.args and (self.is_set(n.args[0], fn, m) or (isinstance(n.args[0], (ast.GeneratorExp, ast.ListComp)) and any(self.is_set(g.iter, fn, m) for g in n.args[0].generators))):
                        out.append((fn, n, "join() over a set"))
                    if isinstance(n.func, ast.Attribute) and n.func.attr == "pop" and not n.args and self.is_set(n.func.value, fn, m):
                        out.append((fn, n, "set.pop()"))
                    if d == "sorted" and n.args and self.is_set(n.args[0], fn, m):
                        key = [k.value for k in n.keywords if k.arg == "key"]
                        if key and not self._key_total(key[0]):
                            out.append((fn, n, "sorted() of a set with a key that may tie"))
        # de-duplicate comprehension inside join etc.
        seen, res = set(), []
        for fn, n, d in out:
            if id(n) not in seen:
                seen.add(id(n))
                res.append((fn, n, d))
        return res

    def _consumed_order_free(self, n):
        p = getattr(n, "_parent", None)
        if isinstance(p, ast.Call) and dotted(p.func) in ORDER_FREE_CONSUMERS and n in p.args:
            if dotted(p.func) == "sorted":
                key = [k.value for k in p.keywords if k.arg == "key"]
                return not key or self._key_total(key[0])
            return True
        if isinstance(p, ast.Call) and isinstance(p.func, ast.Attribute) and p.func.attr in ("update", "intersection_update", "difference_update", "union", "intersection", "issubset", "issuperset") and n in p.args:
            return True
        return False

    @staticmethod
    def _key_total(key):
        """a sort key under which distinct elements cannot tie: a lambda whose
        every result mentions the element itself (directly, or through
        <sequence>.index(element))"""
        if not isinstance(key, ast.Lambda) or len(key.args.args) != 1:
            return False
        p = key.args.args[0].arg

        def mentions(e):
            if isinstance(e, ast.IfExp):
                return mentions(e.body) and mentions(e.orelse)
            if isinstance(e, ast.Tuple):
                return any(mentions(x) for x in e.elts)
            if isinstance(e, ast.Name):
                return e.id == p
            if isinstance(e, ast.Call) and isinstance(e.func, ast.Attribute) and e.func.attr == "index" and e.args and isinstance(e.args[0], ast.Name) and e.args[0].id == p:
                return True
            return False

        return mentions(key.body)

    def _body_order_sensitive(self, body):
        for s in body:
            for n in ast.walk(s):
                if isinstance(n, (ast.Yield, ast.YieldFrom, ast.Return, ast.Break)):
                    return True
                if isinstance(n, ast.Call) and isinstance(n.func, ast.Attribute) and n.func.attr in ("append", "extend", "insert", "write", "appendleft"):
                    return True
                if isinstance(n, ast.Call) and dotted(n.func) in ("print",):
                    return True
                if isinstance(n, ast.AugAssign) and isinstance(n.op, ast.Add) and not isinstance(n.value, ast.Constant):
                    # string/list accumulation (numeric sums are order-free, but cannot be told apart cheaply): flag only non-numeric evidence
                    if isinstance(n.value, (ast.List, ast.JoinedStr)) or (isinstance(n.value, ast.Call) and isinstance(n.value.func, ast.Attribute) and n.value.func.attr == "format"):
                        return True
        return False
