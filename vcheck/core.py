"""E1/E2: loader, symbol resolution, pinned-region map, shared AST helpers."""
import ast
import csv
import io
import os
import re
import tokenize
from collections import namedtuple, OrderedDict


class AnalysisError(Exception):
    """The analysis itself cannot proceed (vanished anchor, unknown syntax,
    vacuous rule).  Reported as ANALYSIS-ERROR / exit 2, never as a pass and
    never as a property violation."""


Sym = namedtuple("Sym", "kind mod name node")
# kind: func | class | assign | module | external | import_unresolved


def norm(node):
    """Normalised source text of a node: identity of a construct that survives
    reformatting and line movement (never a line number)."""
    if node is None:
        return ""
    if isinstance(node, str):
        return " ".join(node.split())
    try:
        return " ".join(ast.unparse(node).split())
    except Exception:  # pragma: no cover
        return ast.dump(node)


def short(node, n=90):
    s = norm(node)
    return s if len(s) <= n else s[: n - 3] + "..."


class Module(object):
    def __init__(self, name, path, rel, src):
        self.name = name
        self.path = path
        self.rel = rel
        self.src = src
        try:
            self.tree = ast.parse(src, path)
        except SyntaxError as e:
            raise AnalysisError("cannot parse %s: %s" % (rel, e))
        self.funcs = OrderedDict()
        self.classes = OrderedDict()
        self.imports = {}
        self.star_imports = []
        self.assigns = {}
        self.all_names = None
        self.is_pkg = path.endswith("__init__.py")
        strip_noise(self.tree)
        self.turned_comparisons = canonical_comparisons(self.tree)
        self.renamed_locals = normalise_locals(self.tree, rel)
        self._collect(self.tree.body)
        self._pin_map()
        # parent links & enclosing-function map
        for parent in ast.walk(self.tree):
            for child in ast.iter_child_nodes(parent):
                child._parent = parent

    def _abs_module(self, node):
        if node.level == 0:
            return node.module
        parts = self.name.split(".")
        if not self.is_pkg:
            parts = parts[:-1]
        if node.level > 1:
            parts = parts[: -(node.level - 1)]
        if node.module:
            parts = parts + node.module.split(".")
        return ".".join(parts)

    def _collect(self, body):
        for n in body:
            if isinstance(n, (ast.FunctionDef, ast.AsyncFunctionDef)):
                self.funcs[n.name] = n
            elif isinstance(n, ast.ClassDef):
                self.classes[n.name] = n
            elif isinstance(n, ast.ImportFrom):
                m = self._abs_module(n)
                for a in n.names:
                    if a.name == "*":
                        self.star_imports.append(m)
                    else:
                        self.imports[a.asname or a.name] = (m, a.name)
            elif isinstance(n, ast.Import):
                for a in n.names:
                    if a.asname:
                        self.imports[a.asname] = (a.name, None)
                    else:
                        self.imports[a.name.split(".")[0]] = (a.name.split(".")[0], None)
            elif isinstance(n, ast.Assign):
                for t in n.targets:
                    if isinstance(t, ast.Name):
                        self.assigns.setdefault(t.id, []).append(n.value)
                        if t.id == "__all__" and isinstance(n.value, (ast.List, ast.Tuple)):
                            self.all_names = [
                                e.value for e in n.value.elts if isinstance(e, ast.Constant)
                            ]
            elif isinstance(n, ast.AnnAssign) and isinstance(n.target, ast.Name) and n.value:
                self.assigns.setdefault(n.target.id, []).append(n.value)
            elif isinstance(n, (ast.If, ast.Try)):
                # version-conditional imports / definitions (py2x_compat)
                for sub in ast.iter_child_nodes(n):
                    if isinstance(sub, ast.stmt):
                        self._collect([sub])
                    elif isinstance(sub, ast.ExceptHandler):
                        self._collect(sub.body)

    # ---- E2: pinned-region map -------------------------------------------
    def _pin_map(self):
        """free_lines: lines inside '## Begin/End not in spec' regions or
        carrying a trailing '## Not in spec'.  spec_comment_lines: '###' lines
        (pseudocode that the implementation replaces)."""
        self.free_lines = set()
        self.spec_comments = {}  # line -> text after ###
        begin = None
        try:
            toks = list(tokenize.generate_tokens(io.StringIO(self.src).readline))
        except (tokenize.TokenError, IndentationError) as e:  # pragma: no cover
            raise AnalysisError("cannot tokenize %s: %s" % (self.rel, e))
        for t in toks:
            if t.type != tokenize.COMMENT:
                continue
            text = t.string.strip()
            line = t.start[0]
            if text.startswith("###"):
                self.spec_comments[line] = text[3:].strip()
            elif text.startswith("##"):
                body = text[2:].strip().lower()
                if body.startswith("begin not in spec"):
                    begin = line
                elif body.startswith("end not in spec"):
                    if begin is not None:
                        self.free_lines.update(range(begin, line + 1))
                    begin = None
                elif body.startswith("not in spec"):
                    self.free_lines.add(line)
        if begin is not None:
            self.free_lines.update(range(begin, len(self.src.splitlines()) + 2))

    def enclosing_function(self, node):
        n = node
        while n is not None:
            n = getattr(n, "_parent", None)
            if isinstance(n, (ast.FunctionDef, ast.AsyncFunctionDef)):
                return n
        return None

    def outermost_function(self, node):
        n = node
        out = None
        while n is not None:
            n = getattr(n, "_parent", None)
            if isinstance(n, (ast.FunctionDef, ast.AsyncFunctionDef)):
                out = n
        return out


def ref_pseudocode_deviation(fn):
    """Returns (decorated, deviation) for a FunctionDef/ClassDef."""
    for d in fn.decorator_list:
        if isinstance(d, ast.Name) and d.id == "ref_pseudocode":
            return True, None
        if isinstance(d, ast.Call) and isinstance(d.func, ast.Name) and d.func.id == "ref_pseudocode":
            dev = None
            for kw in d.keywords:
                if kw.arg == "deviation" and isinstance(kw.value, ast.Constant):
                    dev = kw.value.value
            return True, dev
    return False, None


class Repo(object):
    PKG = "vc2_conformance"

    def __init__(self, root="/repo"):
        self.root = os.path.abspath(root)
        self.pkgroot = os.path.join(self.root, self.PKG)
        if not os.path.isdir(self.pkgroot):
            raise AnalysisError("package directory %s missing" % self.pkgroot)
        self.modules = OrderedDict()
        for dirpath, dirnames, filenames in sorted(os.walk(self.pkgroot)):
            dirnames.sort()
            if "__pycache__" in dirpath:
                continue
            for fn in sorted(filenames):
                if not fn.endswith(".py"):
                    continue
                path = os.path.join(dirpath, fn)
                rel = os.path.relpath(path, self.root)
                name = rel[:-3].replace(os.sep, ".")
                if name.endswith(".__init__"):
                    name = name[: -len(".__init__")]
                with open(path, encoding="utf-8") as f:
                    src = f.read()
                self.modules[name] = Module(name, path, rel, src)
        self._ext = None
        self.canonicalised_calls = self._canonicalise_calls()

    def _canonicalise_calls(self):
        """Keyword arguments of calls to resolved repository functions are moved into their positional slots when that
        leaves no gap (f(a, c=z, b=y) -> f(a, y, z) for def f(a, b, c)), so that rules see one spelling of a call whether
        a maintainer writes an argument positionally or by keyword.  Argument evaluation order is irrelevant to every
        rule here.  Calls with * / ** arguments, unresolved callees, methods and constructors are left alone."""
        n = 0
        for m in self.modules.values():
            for c in ast.walk(m.tree):
                if not (isinstance(c, ast.Call) and isinstance(c.func, ast.Name)) or not c.keywords:
                    continue
                if any(isinstance(a, ast.Starred) for a in c.args) or any(k.arg is None for k in c.keywords):
                    continue
                tgt = self.resolve(m.name, c.func.id)
                if tgt is None or getattr(tgt, "kind", None) != "func" or tgt.node is None:
                    continue
                ta = tgt.node.args
                if ta.posonlyargs or ta.vararg:
                    continue
                pos = [a.arg for a in ta.args]
                kw = dict((k.arg, k) for k in c.keywords)
                if len(kw) != len(c.keywords) or len(c.args) > len(pos):
                    continue
                i = len(c.args)
                moved = False
                while i < len(pos) and pos[i] in kw:
                    k = kw.pop(pos[i])
                    c.args.append(k.value)
                    c.keywords.remove(k)
                    i += 1
                    moved = True
                n += moved
        return n

    # ---- lookup ----------------------------------------------------------
    def mod(self, name):
        if not name.startswith(self.PKG):
            name = self.PKG + "." + name
        m = self.modules.get(name)
        if m is None:
            raise AnalysisError("anchor vanished: module %s" % name)
        return m

    def func(self, spec):
        """'decoder.stream:parse_info' or 'bitstream.serdes:SerDes.bool'."""
        modname, qual = spec.split(":")
        m = self.mod(modname)
        parts = qual.split(".")
        if len(parts) == 1:
            fn = m.funcs.get(parts[0])
        else:
            cls = m.classes.get(parts[0])
            fn = None
            if cls is not None:
                for n in cls.body:
                    if isinstance(n, ast.FunctionDef) and n.name == parts[1]:
                        fn = n
        if fn is None:
            raise AnalysisError("anchor vanished: function %s" % spec)
        return m, fn

    def cls(self, spec):
        modname, name = spec.split(":")
        m = self.mod(modname)
        c = m.classes.get(name)
        if c is None:
            raise AnalysisError("anchor vanished: class %s" % spec)
        return m, c

    def assign(self, spec):
        modname, name = spec.split(":")
        m = self.mod(modname)
        v = m.assigns.get(name)
        if not v:
            raise AnalysisError("anchor vanished: module-level name %s" % spec)
        return m, v[-1]

    def public_names(self, m):
        if m.all_names is not None:
            return list(m.all_names)
        names = list(m.funcs) + list(m.classes) + list(m.assigns) + list(m.imports)
        for s in m.star_imports:
            sm = self.modules.get(s)
            if sm is not None:
                names += self.public_names(sm)
        return [n for n in names if not n.startswith("_")]

    def resolve(self, modname, name, _seen=None):
        """Resolve a bare name used in module `modname` to its definition."""
        _seen = _seen or set()
        if (modname, name) in _seen:
            return None
        _seen.add((modname, name))
        m = self.modules.get(modname)
        if m is None:
            return Sym("external", modname, name, None)
        if name in m.funcs:
            return Sym("func", modname, name, m.funcs[name])
        if name in m.classes:
            return Sym("class", modname, name, m.classes[name])
        if name in m.assigns:
            return Sym("assign", modname, name, m.assigns[name][-1])
        if name in m.imports:
            tm, tn = m.imports[name]
            if tn is None:
                return Sym("module", tm, None, None)
            if tm in self.modules:
                # could be a submodule import: from pkg import submodule
                sub = tm + "." + tn
                r = self.resolve(tm, tn, _seen)
                if r is not None:
                    return r
                if sub in self.modules:
                    return Sym("module", sub, None, None)
                return None
            return Sym("external", tm, tn, None)
        for s in m.star_imports:
            sm = self.modules.get(s)
            if sm is None:
                # star import of an external package: cannot know; say external
                continue
            if name in self.public_names(sm):
                r = self.resolve(s, name, _seen)
                if r is not None:
                    return r
        return None

    def resolve_expr(self, modname, expr):
        """Resolve Name or dotted Attribute chains (module.attr)."""
        if isinstance(expr, ast.Name):
            return self.resolve(modname, expr.id)
        if isinstance(expr, ast.Attribute):
            base = self.resolve_expr(modname, expr.value)
            if base is None:
                return None
            if base.kind == "module":
                if base.mod in self.modules:
                    r = self.resolve(base.mod, expr.attr)
                    if r is None and (base.mod + "." + expr.attr) in self.modules:
                        return Sym("module", base.mod + "." + expr.attr, None, None)
                    return r
                return Sym("external", base.mod, expr.attr, None)
            if base.kind == "external":
                return Sym("external", base.mod, (base.name or "") + "." + expr.attr, None)
            if base.kind == "class":
                for n in base.node.body:
                    if isinstance(n, ast.FunctionDef) and n.name == expr.attr:
                        return Sym("func", base.mod, base.name + "." + expr.attr, n)
        return None

    # ---- pinned-ness -----------------------------------------------------
    def is_pinned_function(self, fn):
        dec, dev = ref_pseudocode_deviation(fn)
        return dec and dev in (None, "serdes")

    def is_free(self, m, node):
        """True if `node` is code the repository's own spec-equivalence test
        does not pin (see DESIGN section 2)."""
        fn = m.outermost_function(node) if not isinstance(node, ast.FunctionDef) else node
        if isinstance(node, ast.FunctionDef) and m.outermost_function(node) is not None:
            fn = m.outermost_function(node)
        if fn is None or not self.is_pinned_function(fn):
            return True
        first = getattr(node, "lineno", None)
        last = getattr(node, "end_lineno", first)
        if first is None:
            return True
        return any(l in m.free_lines for l in range(first, last + 1))

    def where(self, m, node):
        fn = None
        n = node
        names = []
        while n is not None:
            if isinstance(n, (ast.FunctionDef, ast.ClassDef, ast.AsyncFunctionDef)):
                names.append(n.name)
            n = getattr(n, "_parent", None)
        return "%s:%s" % (m.rel, ".".join(reversed(names)) or "<module>")

    # ---- data files ------------------------------------------------------
    def read_csv_rows(self, relpath):
        path = os.path.join(self.root, relpath)
        if not os.path.exists(path):
            raise AnalysisError("anchor vanished: data file %s" % relpath)
        with open(path, encoding="utf-8") as f:
            return list(csv.reader(f))

    @property
    def ext(self):
        if self._ext is None:
            from . import extables

            self._ext = extables.ExternalTables()
        return self._ext


# --------------------------------------------------------------------------
# small AST helpers used everywhere
# --------------------------------------------------------------------------

def const_str(node):
    if isinstance(node, ast.Constant) and isinstance(node.value, str):
        return node.value
    return None


def call_name(node):
    """'f' for f(...), 'a.b' for a.b(...) (dotted text), else None."""
    if not isinstance(node, ast.Call):
        return None
    return dotted(node.func)


def dotted(node):
    if isinstance(node, ast.Name):
        return node.id
    if isinstance(node, ast.Attribute):
        b = dotted(node.value)
        return None if b is None else b + "." + node.attr
    return None


def iter_funcs(tree):
    for n in ast.walk(tree):
        if isinstance(n, (ast.FunctionDef, ast.AsyncFunctionDef)):
            yield n


def walk_no_nested(node):
    """ast.walk that does not descend into nested function/class/lambda bodies
    (the node itself is yielded and, if it is a def, its body is walked)."""
    stack = [node]
    first = True
    while stack:
        n = stack.pop()
        yield n
        if not first and isinstance(n, (ast.FunctionDef, ast.AsyncFunctionDef, ast.ClassDef, ast.Lambda)):
            continue
        first = False
        stack.extend(reversed(list(ast.iter_child_nodes(n))))


def subscript_key(node, base_name):
    """base_name["k"] -> "k" (None otherwise)."""
    if (
        isinstance(node, ast.Subscript)
        and isinstance(node.value, ast.Name)
        and node.value.id == base_name
    ):
        return const_str(node.slice)
    return None


def class_methods(cls):
    return OrderedDict((n.name, n) for n in cls.body if isinstance(n, ast.FunctionDef))


def base_names(cls):
    return [dotted(b) for b in cls.bases]


# --------------------------------------------------------------------------
# AST pattern matching with metavariables (rename-tolerant structural rules)
# --------------------------------------------------------------------------

def _pm(p, n, env):
    """unify pattern node p with node n.  In patterns, a Name `X_foo` matches
    any Name (consistently), `E_foo` matches any expression (consistently, by
    structure), `_` alone matches anything."""
    if isinstance(p, ast.Name):
        if p.id == "ANY_":
            return True
        if p.id.startswith("X_"):
            if not isinstance(n, ast.Name):
                return False
            if p.id in env:
                return env[p.id] == n.id
            env[p.id] = n.id
            return True
        if p.id.startswith("E_"):
            if not isinstance(n, ast.expr):
                return False
            d = ast.dump(n)
            if p.id in env:
                return env[p.id] == d
            env[p.id] = d
            return True
    if isinstance(p, ast.Expr) and isinstance(p.value, ast.Name) and p.value.id == "STMTS_":
        return True
    if type(p) is not type(n):
        return False
    for f in p._fields:
        if f in ("ctx", "type_comment", "kind", "lineno", "col_offset", "end_lineno", "end_col_offset"):
            continue
        a, b = getattr(p, f, None), getattr(n, f, None)
        if isinstance(a, list):
            if not isinstance(b, list):
                return False
            # a trailing STMTS_ in a pattern body matches any remaining statements
            if a and isinstance(a[-1], ast.Expr) and isinstance(getattr(a[-1], "value", None), ast.Name) and a[-1].value.id == "STMTS_":
                if len(b) < len(a) - 1:
                    return False
                pairs = zip(a[:-1], b)
            else:
                if len(a) != len(b):
                    return False
                pairs = zip(a, b)
            for x, y in pairs:
                if isinstance(x, ast.AST):
                    if not _pm(x, y, env):
                        return False
                elif x != y:
                    return False
        elif isinstance(a, ast.AST):
            if not isinstance(b, ast.AST) or not _pm(a, b, env):
                return False
        elif a != b:
            return False
    return True


_PAT_CACHE = {}


def pattern(src):
    """parse a statement or expression pattern"""
    if src not in _PAT_CACHE:
        t = ast.parse(src.strip())
        node = t.body[0]
        if isinstance(node, ast.Expr) and len(t.body) == 1 and not src.strip().endswith(";"):
            node = node.value if not _is_stmt_pattern(src) else node
        _PAT_CACHE[src] = node
    return _PAT_CACHE[src]


def _is_stmt_pattern(src):
    s = src.strip()
    return s.endswith(")") and False


def pmatch(src, node, env=None):
    """does `node` match the pattern `src`?  returns the binding dict or None"""
    p = pattern(src)
    if isinstance(node, ast.Expr) and not isinstance(p, ast.stmt):
        node = node.value
    e = dict(env or {})
    return e if _pm(p, node, e) else None


def pfind(src, root, env=None):
    """first node under root (inclusive) matching the pattern; (node, env) or (None, None)"""
    p = pattern(src)
    want_stmt = isinstance(p, ast.stmt)
    for n in ast.walk(root):
        if want_stmt != isinstance(n, ast.stmt) and not (isinstance(n, ast.Expr) and not want_stmt):
            continue
        if isinstance(n, ast.Expr) and not want_stmt:
            continue
        e = pmatch(src, n, env)
        if e is not None:
            return n, e
    return None, None


def pall(src, root, env=None):
    out = []
    p = pattern(src)
    want_stmt = isinstance(p, ast.stmt)
    for n in ast.walk(root):
        if want_stmt != isinstance(n, ast.stmt):
            continue
        e = pmatch(src, n, env)
        if e is not None:
            out.append((n, e))
    return out



# --------------------------------------------------------------------------
# Alpha-normalisation of local variable names towards the reviewed tree
# --------------------------------------------------------------------------
# Many rules anchor on the names of locals as they are on the reviewed tree
# (loop variables, accumulators).  Renaming a local is behaviour preserving, so
# before any analysis each function's locals are renamed back to the reference
# names: both name lists are taken in order of first binding; a name that is in
# the function but not in the reference list is a *renamed* local and is mapped
# to the reference name that occupies the same position and has disappeared.
# Names present in both lists keep themselves (so reordering statements maps
# nothing), and nothing is renamed when the lists differ in length or the
# target name already occurs in the function (no capture).  This is an
# alpha-conversion of the analysed program, nothing else.

def iter_toplevel_functions(tree):
    for n in tree.body:
        if isinstance(n, (ast.FunctionDef, ast.AsyncFunctionDef)):
            yield n.name, n
        elif isinstance(n, ast.ClassDef):
            for f in n.body:
                if isinstance(f, (ast.FunctionDef, ast.AsyncFunctionDef)):
                    yield "%s.%s" % (n.name, f.name), f


def binding_order(fn):
    """purely local names of fn (nested scopes included) in order of first binding"""
    params, banned = set(), set()
    for f in ast.walk(fn):
        if isinstance(f, (ast.FunctionDef, ast.AsyncFunctionDef, ast.Lambda)):
            a = f.args
            for x in a.posonlyargs + a.args + a.kwonlyargs:
                params.add(x.arg)
            if a.vararg:
                params.add(a.vararg.arg)
            if a.kwarg:
                params.add(a.kwarg.arg)
        if isinstance(f, (ast.Global, ast.Nonlocal)):
            banned.update(f.names)
        if isinstance(f, (ast.FunctionDef, ast.AsyncFunctionDef, ast.ClassDef)) and f is not fn:
            banned.add(f.name)
        if isinstance(f, ast.ExceptHandler) and f.name:
            banned.add(f.name)
        if isinstance(f, (ast.Import, ast.ImportFrom)):
            for al in f.names:
                banned.add((al.asname or al.name).split(".")[0])
    stores = sorted((n for n in ast.walk(fn) if isinstance(n, ast.Name) and isinstance(n.ctx, (ast.Store, ast.Del))), key=lambda n: (n.lineno, n.col_offset))
    out = []
    for n in stores:
        if n.id in params or n.id in banned or n.id in out:
            continue
        out.append(n.id)
    return out


REFERENCE_LOCALS = None


def _reference_locals():
    global REFERENCE_LOCALS
    if REFERENCE_LOCALS is None:
        import json

        p = os.path.join(os.path.dirname(os.path.abspath(__file__)), "reference_locals.json")
        try:
            with open(p) as f:
                REFERENCE_LOCALS = json.load(f)
        except (IOError, OSError, ValueError):
            REFERENCE_LOCALS = {}
    return REFERENCE_LOCALS


def normalise_locals(tree, rel):
    ref = _reference_locals().get(rel)
    if not ref:
        return {}
    done = {}
    for qual, fn in iter_toplevel_functions(tree):
        want = ref.get(qual)
        if not want:
            continue
        have = binding_order(fn)
        if have == want or len(have) != len(want):
            continue
        mapping = {}
        for a, b in zip(have, want):
            if a != b and a not in want and b not in have:
                mapping[a] = b
        if not mapping:
            continue
        used = set(n.id for n in ast.walk(fn) if isinstance(n, ast.Name)) | set(a.arg for f in ast.walk(fn) if isinstance(f, (ast.FunctionDef, ast.AsyncFunctionDef, ast.Lambda)) for a in f.args.posonlyargs + f.args.args + f.args.kwonlyargs)
        if any(b in used for b in mapping.values()):
            continue
        for n in ast.walk(fn):
            if isinstance(n, ast.Name) and n.id in mapping:
                n.id = mapping[n.id]
        done[qual] = mapping
    return done



# --------------------------------------------------------------------------
# Effect-free statements are not part of any rule
# --------------------------------------------------------------------------
NOISE_CALLS = ("logging.debug", "logging.info", "logging.warning", "logging.log", "logger.debug", "logger.info", "logger.warning", "log.debug", "log.info")


def _is_noise(s, first):
    if isinstance(s, ast.Pass):
        return True
    if isinstance(s, ast.Expr) and isinstance(s.value, ast.Constant) and not (first and isinstance(s.value.value, str)):
        return True  # stray constant expression (not the docstring)
    if isinstance(s, ast.Expr) and isinstance(s.value, ast.Call) and dotted(s.value.func) in NOISE_CALLS:
        return True
    return False


def _constant_like(e):
    """literals (incl. negative numbers) and enumeration members / CONSTANT names"""
    if isinstance(e, ast.Constant):
        return True
    if isinstance(e, ast.UnaryOp) and isinstance(e.op, ast.USub) and isinstance(e.operand, ast.Constant):
        return True
    if isinstance(e, ast.Attribute) and isinstance(e.value, ast.Name) and e.value.id[:1].isupper() and not e.value.id.isupper():
        return True  # Profiles.low_delay
    if isinstance(e, ast.Name) and e.id.isupper() and len(e.id) > 1:
        return True  # AUTO, WILDCARD
    return False


_FLIP = {ast.Lt: ast.Gt, ast.Gt: ast.Lt, ast.LtE: ast.GtE, ast.GtE: ast.LtE, ast.Eq: ast.Eq, ast.NotEq: ast.NotEq}


def canonical_comparisons(tree):
    """single-operator comparisons written constant-first (`0 == x`, `Profiles.hq == p`, `2 > n`) are turned round
    (`x == 0`, `p == Profiles.hq`, `n < 2`), so that rules see one spelling of a test; returns the number turned"""
    n = 0
    for c in ast.walk(tree):
        if isinstance(c, ast.Compare) and len(c.ops) == 1 and type(c.ops[0]) in _FLIP:
            l, r = c.left, c.comparators[0]
            if _constant_like(l) and not _constant_like(r):
                c.left, c.comparators[0] = r, l
                c.ops[0] = _FLIP[type(c.ops[0])]()
                n += 1
    return n


def strip_noise(tree):
    """remove `pass`, stray constant expressions and logging calls from every block that
    keeps at least one other statement (they have no effect on any decided clause, and
    rules that look at the first/last statement of a block should not see them)"""
    for node in ast.walk(tree):
        for field in ("body", "orelse", "finalbody"):
            blk = getattr(node, field, None)
            if not isinstance(blk, list) or not blk or not all(isinstance(x, ast.stmt) for x in blk):
                continue
            is_def = field == "body" and isinstance(node, (ast.FunctionDef, ast.AsyncFunctionDef, ast.ClassDef, ast.Module))
            keep = [x for i, x in enumerate(blk) if not _is_noise(x, is_def and i == 0)]
            real = [x for x in keep if not (isinstance(x, ast.Expr) and isinstance(x.value, ast.Constant))]
            if real and len(keep) != len(blk):
                blk[:] = keep
