"""Extractors shared by C15 / C16 / C03: the encoder's sequence-header option
tables, the decoder's level-constraint keys per function, preset functions."""
import ast
from collections import OrderedDict

from .core import AnalysisError, const_str, dotted, norm, subscript_key

SH = "encoder.sequence_header"
DSH = "decoder.sequence_header"


class OptionTable(object):
    def __init__(self, name, node):
        self.name = name
        self.node = node
        kw = {k.arg: k.value for k in node.keywords}
        self.dict_type = dotted(kw.get("dict_type"))
        self.flag_key = const_str(kw.get("flag_key"))
        self.presets = dotted(kw.get("presets")) if "presets" in kw else None
        self.index_key = const_str(kw.get("preset_index_constraint_key")) if "preset_index_constraint_key" in kw else None
        self.parameters = []
        p = kw.get("parameters")
        if not isinstance(p, (ast.List, ast.Tuple)):
            raise AnalysisError("option table %s: parameters is not a literal list" % name)
        for e in p.elts:
            if const_str(e) is not None:
                self.parameters.append((const_str(e), const_str(e)))
            elif isinstance(e, ast.Tuple) and len(e.elts) == 2:
                self.parameters.append((const_str(e.elts[0]), const_str(e.elts[1])))
            else:
                raise AnalysisError("option table %s: unrecognised parameter %s" % (name, norm(e)))


def option_tables(repo):
    m = repo.mod(SH)
    out = OrderedDict()
    for name, vals in m.assigns.items():
        v = vals[-1]
        if isinstance(v, ast.Call) and dotted(v.func) == "partial" and v.args and dotted(v.args[0]) == "iter_custom_options_dicts":
            out[name] = OptionTable(name, v)
    if len(out) < 8:
        raise AnalysisError("encoder option tables: only %d partial(iter_custom_options_dicts, ...) found" % len(out))
    return out


def decoder_level_keys(repo, modules=("decoder.sequence_header", "decoder.picture_syntax", "decoder.transform_data_syntax", "decoder.stream", "decoder.fragment_syntax")):
    """function name -> ordered list of (level key, value expression text, node)
    for every assert_level_constraint / allowed_values_for(LEVEL_CONSTRAINTS, key, ...)."""
    out = OrderedDict()
    for spec in modules:
        m = repo.mod(spec)
        for fname, fn in m.funcs.items():
            for n in sorted((x for x in ast.walk(fn) if isinstance(x, ast.Call)), key=lambda x: (x.lineno, x.col_offset)):
                d = dotted(n.func)
                if d == "assert_level_constraint" and len(n.args) >= 3 and const_str(n.args[1]):
                    out.setdefault(fname, []).append((const_str(n.args[1]), norm(n.args[2]), n))
                elif d == "allowed_values_for" and len(n.args) >= 2 and dotted(n.args[0]) == "LEVEL_CONSTRAINTS" and const_str(n.args[1]):
                    out.setdefault(fname, []).append((const_str(n.args[1]), "<allowed_values_for>", n))
    return out


def preset_field_map(repo, fname):
    """decoder preset_X(video_parameters, index): (TABLE name, {namedtuple field: VideoParameters key})."""
    m = repo.mod("pseudocode.video_parameters")
    fn = m.funcs.get(fname)
    if fn is None:
        raise AnalysisError("anchor vanished: %s" % fname)
    table = None
    var = None
    out = OrderedDict()
    for s in fn.body:
        if isinstance(s, ast.Assign) and isinstance(s.value, ast.Subscript) and isinstance(s.targets[0], ast.Name):
            table = dotted(s.value.value)
            var = s.targets[0].id
        elif isinstance(s, ast.Assign) and isinstance(s.value, ast.Attribute) and dotted(s.value.value) == var:
            k = subscript_key(s.targets[0], "video_parameters")
            if k:
                out[s.value.attr] = k
        elif isinstance(s, ast.Expr) and isinstance(s.value, ast.Call) and dotted(s.value.func, ) and dotted(s.value.func).startswith("preset_") and len(s.value.args) == 2 and isinstance(s.value.args[1], ast.Attribute) and dotted(s.value.args[1].value) == var:
            # preset_color_spec delegates: preset_color_primaries(video_parameters, preset.color_primaries_index)
            inner = m.funcs.get(dotted(s.value.func))
            if inner is not None:
                for x in inner.body:
                    if isinstance(x, ast.Assign) and dotted(x.value) == inner.args.args[1].arg:
                        k = subscript_key(x.targets[0], "video_parameters")
                        if k:
                            out[s.value.args[1].attr] = k
    return table, out


def level_csv_keys(repo):
    rows = repo.read_csv_rows("vc2_conformance/level_constraints.csv")
    keys = []
    for r in rows:
        if r and r[0].strip() and not r[0].strip().startswith("#"):
            keys.append(r[0].strip())
    return keys
