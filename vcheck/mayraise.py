"""E8: may-raise / exception-escape analysis.

raises(f) = explicit `raise` statements + a written-down summary table for the
builtins and methods the analysed functions use + raises of resolved callees
(including callables passed as arguments: literal function names,
functools.partial(f, ...), and elements of literal lists iterated by a `for`),
minus what enclosing try/except clauses catch (class hierarchy respected).

Deliberately *not* modelled (stated in the evidence): KeyError/IndexError from
subscripts on plain locals, AttributeError/TypeError from ill-typed values,
MemoryError/RecursionError.
"""
import ast
import builtins
from collections import OrderedDict

from .core import AnalysisError, const_str, dotted, norm, short, walk_no_nested

ANY = "*"

# callable name -> exception class names it may raise when given a str argument
BUILTIN_CALLS = {
    "csv.reader": set(),
    "int": {"ValueError"},
    "float": {"ValueError"},
    "next": {"StopIteration"},
    "Fraction": {"ValueError", "ZeroDivisionError"},
}
NO_RAISE_CALLS = {
    "len", "range", "isinstance", "iter", "filter", "list", "tuple", "set", "dict", "str", "bool", "min", "max", "abs",
    "sorted", "enumerate", "zip", "repr", "OrderedDict", "islice", "count", "product", "partial", "map", "any", "all",
    "sum", "reversed", "frozenset", "bytearray", "bytes", "hasattr", "getattr_default", "print", "type", "id", "chr", "ord",
    "defaultdict", "deque", "object", "super", "format",
}
NO_RAISE_METHODS = {
    "lower", "upper", "strip", "lstrip", "rstrip", "split", "startswith", "endswith", "join", "append", "extend", "items",
    "keys", "values", "get", "copy", "add", "setdefault", "update", "partition", "replace", "isdigit", "format", "title",
    "ljust", "rjust", "center", "write", "flush", "tell", "count", "discard", "popleft", "appendleft", "clear", "rpartition",
    "zfill", "encode", "decode", "splitlines", "rsplit", "isalnum", "isalpha", "isspace", "find", "rfind", "union",
    "intersection", "difference", "issubset", "issuperset", "sort", "reverse", "insert",
}
METHOD_RAISES = {
    "pop": {"KeyError"},
    "remove": {"ValueError"},
    "index": {"ValueError"},
}


def exc_class(name):
    c = getattr(builtins, name, None)
    return c if isinstance(c, type) and issubclass(c, BaseException) else None


class Hierarchy(object):
    """is_sub(a, b): exception class named a is a subclass of class named b,
    across builtins, `csv.Error`, and classes defined in the repository."""

    def __init__(self, repo):
        self.repo = repo
        self.repo_bases = {}
        for m in repo.modules.values():
            for name, c in m.classes.items():
                self.repo_bases.setdefault(name, [dotted(b) for b in c.bases])
        self.repo_bases.setdefault("csv.Error", ["Exception"])
        self.repo_bases.setdefault("Error", ["Exception"])

    def is_sub(self, a, b):
        if a == b:
            return True
        a = a.split(".")[-1] if a not in self.repo_bases else a
        ca, cb = exc_class(a), exc_class(b.split(".")[-1])
        if ca is not None and cb is not None:
            return issubclass(ca, cb)
        seen = set()
        todo = [a]
        while todo:
            x = todo.pop()
            if x in seen or x is None:
                continue
            seen.add(x)
            if x == b or x.split(".")[-1] == b.split(".")[-1]:
                return True
            cx = exc_class(x.split(".")[-1])
            if cx is not None and cb is not None and issubclass(cx, cb):
                return True
            todo.extend(self.repo_bases.get(x, self.repo_bases.get(x.split(".")[-1], [])))
        return False


class MayRaise(object):
    def __init__(self, repo, enum_names=(), extra_no_raise=(), extra_call_raises=None):
        self.repo = repo
        self.h = Hierarchy(repo)
        self.enum_names = set(enum_names)
        self.no_raise = NO_RAISE_CALLS | set(extra_no_raise)
        self.call_raises = dict(BUILTIN_CALLS)
        self.call_raises.update(extra_call_raises or {})
        self.memo = {}
        self.unknown_calls = []
        self.stack = []

    # ---- public
    def function(self, m, fn, arg_callables=None, outer_bindings=None):
        """{exc name: origin} that may escape fn.  arg_callables: param -> list
        of (module, FunctionDef) the parameter may be bound to."""
        key = (id(fn), repr(sorted((k, [self._tkey(x) for x in v]) for k, v in (arg_callables or {}).items())))
        if key in self.memo:
            return self.memo[key]
        if id(fn) in self.stack:
            return {}
        self.stack.append(id(fn))
        ctx = dict(m=m, fn=fn, callables=dict(arg_callables or {}), nested={}, loops={}, outer=outer_bindings or {})
        self._collect_bindings(ctx)
        out = self.block(fn.body, ctx)
        self.stack.pop()
        self.memo[key] = out
        return out

    def _tkey(self, t):
        tm, tf, how = t
        base = tf if isinstance(tf, tuple) and not isinstance(tf[-1], ast.AST) else (id(tf) if not isinstance(tf, tuple) else (tf[0], tf[1]))
        if isinstance(how, tuple):
            return (base, sorted((k, [self._tkey(x) for x in v]) for k, v in how[0].items()), how[1])
        return (base,)

    # ---- bindings: which functions can a local name denote?
    def _collect_bindings(self, ctx):
        fn = ctx["fn"]
        for n in walk_no_nested(fn):
            if isinstance(n, ast.FunctionDef) and n is not fn:
                ctx["nested"][n.name] = n
            if isinstance(n, ast.For) and isinstance(n.iter, (ast.List, ast.Tuple)):
                # for a, b in [(x1, y1), (x2, y2)]: -> b may be y1 | y2
                tg = n.target.elts if isinstance(n.target, (ast.Tuple, ast.List)) else [n.target]
                for i, t in enumerate(tg):
                    if isinstance(t, ast.Name):
                        vals = []
                        for e in n.iter.elts:
                            if isinstance(e, (ast.Tuple, ast.List)) and i < len(e.elts):
                                vals.append(e.elts[i])
                            elif len(tg) == 1:
                                vals.append(e)
                        ctx["loops"].setdefault(t.id, []).extend(vals)

    def callable_targets(self, expr, ctx, depth=0):
        """expr used as a callable value -> list of (module, FunctionDef, bound_partial_args) or None if unknown."""
        m = ctx["m"]
        if depth > 4:
            return None
        if isinstance(expr, ast.Call) and dotted(expr.func) in ("partial", "functools.partial") and expr.args:
            inner = self.callable_targets(expr.args[0], ctx, depth + 1)
            if inner is None:
                return None
            out = []
            for tm, tf, how in inner:
                if isinstance(tf, ast.FunctionDef):
                    params = [a.arg for a in tf.args.args]
                    binds = dict(how[0]) if isinstance(how, tuple) else {}
                    shift = how[1] if isinstance(how, tuple) else 0
                    for i, a in enumerate(expr.args[1:]):
                        if i + shift < len(params):
                            t = self.callable_targets(a, ctx, depth + 1) if isinstance(a, (ast.Name, ast.Attribute)) or (isinstance(a, ast.Call) and dotted(a.func) in ("partial", "functools.partial")) else None
                            if t:
                                binds[params[i + shift]] = t
                    out.append((tm, tf, (binds, shift + len(expr.args) - 1)))
                else:
                    out.append((tm, tf, how))
            return out
        if isinstance(expr, ast.Name):
            if expr.id in ctx["nested"]:
                return [(m, ctx["nested"][expr.id], None)]
            if expr.id in ctx["callables"]:
                return list(ctx["callables"][expr.id])
            if expr.id in ctx["loops"]:
                out = []
                for v in ctx["loops"][expr.id]:
                    t = self.callable_targets(v, ctx, depth + 1)
                    if t is None:
                        return None
                    out.extend(t)
                return out
            sym = self.repo.resolve(m.name, expr.id)
            if sym is not None and sym.kind == "func":
                return [(self.repo.modules[sym.mod], sym.node, None)]
            if sym is not None and sym.kind == "class":
                return [(self.repo.modules[sym.mod], ("class", sym.name, sym.node), None)]
            if sym is not None and sym.kind == "external":
                return [(None, ("external", sym.name), None)]
            if sym is not None and sym.kind == "assign" and isinstance(sym.node, ast.Call) and dotted(sym.node.func) == "fixeddict":
                return [(None, ("fixeddict", sym.name), None)]
            if expr.id in self.no_raise or expr.id in self.call_raises:
                return [(None, ("builtin", expr.id), None)]
            if exc_class(expr.id) is not None:
                return [(None, ("builtin", expr.id), None)]
            return None
        if isinstance(expr, ast.Attribute):
            sym = self.repo.resolve_expr(m.name, expr)
            if sym is not None and sym.kind == "func":
                return [(self.repo.modules[sym.mod], sym.node, None)]
        return None

    # ---- expressions
    def expr(self, e, ctx):
        out = OrderedDict()
        if e is None:
            return out
        for n in walk_no_nested(e):
            if isinstance(n, ast.Call):
                self._call(n, ctx, out)
            elif isinstance(n, (ast.ListComp, ast.SetComp, ast.DictComp, ast.GeneratorExp)):
                pass
        return out

    def _may_be_float(self, e, ctx, depth=0):
        """light local type inference: can expression e be a float?"""
        if depth > 4:
            return False
        if isinstance(e, ast.Constant):
            return isinstance(e.value, float)
        if isinstance(e, ast.Call):
            d = dotted(e.func) or ""
            if d == "float" or d.startswith("math.") or d in ("Fraction.__float__", "sum") and False:
                return True
            return False
        if isinstance(e, ast.BinOp):
            if isinstance(e.op, ast.Div):
                return True
            return self._may_be_float(e.left, ctx, depth + 1) or self._may_be_float(e.right, ctx, depth + 1)
        if isinstance(e, ast.UnaryOp):
            return self._may_be_float(e.operand, ctx, depth + 1)
        if isinstance(e, ast.Name):
            for n in ast.walk(ctx["fn"]):
                if isinstance(n, ast.Assign) and any(isinstance(t, ast.Name) and t.id == e.id for t in n.targets):
                    if n.value is not e and self._may_be_float(n.value, ctx, depth + 1):
                        return True
                if isinstance(n, ast.AugAssign) and isinstance(n.target, ast.Name) and n.target.id == e.id and (isinstance(n.op, ast.Div) or self._may_be_float(n.value, ctx, depth + 1)):
                    return True
        return False

    @staticmethod
    def _pop_guarded(call):
        """obj.pop("k") under `if "k" in obj:` / in the else of `if "k" not in obj:`,
        or with a default argument."""
        if len(call.args) >= 2:
            return True
        if not call.args:
            return False
        k = norm(call.args[0])
        obj = norm(call.func.value)
        p = call
        while getattr(p, "_parent", None) is not None:
            par = p._parent
            if isinstance(par, ast.If) and isinstance(par.test, ast.Compare) and len(par.test.ops) == 1 and norm(par.test.left) == k and norm(par.test.comparators[0]) == obj:
                if isinstance(par.test.ops[0], ast.In) and p in par.body:
                    return True
                if isinstance(par.test.ops[0], ast.NotIn) and p in par.orelse:
                    return True
            if isinstance(par, (ast.FunctionDef, ast.Lambda)):
                break
            p = par
        return False

    def _add(self, out, name, origin):
        out.setdefault(name, origin)

    def _call(self, n, ctx, out):
        f = n.func
        where = "%s:%s `%s`" % (ctx["m"].rel, ctx["fn"].name, short(n, 60))
        d = dotted(f)
        if isinstance(f, ast.Name):
            if f.id in self.enum_names or (f.id in ctx.get("enum_params", ())):
                self._add(out, "ValueError", where)
                return
            if f.id in self.call_raises and f.id not in ctx["nested"] and f.id not in ctx["callables"]:
                for x in self.call_raises[f.id]:
                    self._add(out, x, where)
                if f.id in ("int", "round") and n.args and self._may_be_float(n.args[0], ctx):
                    # int(inf) -> OverflowError, int(nan) -> ValueError
                    self._add(out, "OverflowError", where)
                    self._add(out, "ValueError", where)
                return
            if f.id in self.no_raise and f.id not in ctx["nested"] and f.id not in ctx["callables"]:
                return
            targets = self.callable_targets(f, ctx)
            if targets is None:
                self.unknown_calls.append(where)
                self._add(out, ANY, where)
                return
            for tm, tf, how in targets:
                self._apply_target(tm, tf, n, ctx, out, where, how)
            return
        if isinstance(f, ast.Attribute):
            if d in self.call_raises:
                for x in self.call_raises[d]:
                    self._add(out, x, where)
                return
            if f.attr in METHOD_RAISES:
                if f.attr == "pop" and self._pop_guarded(n):
                    return
                for x in METHOD_RAISES[f.attr]:
                    self._add(out, x, where)
                return
            if f.attr in NO_RAISE_METHODS:
                return
            targets = self.callable_targets(f, ctx)
            if targets is not None:
                for tm, tf, how in targets:
                    self._apply_target(tm, tf, n, ctx, out, where, how)
                return
            self.unknown_calls.append(where)
            self._add(out, ANY, where)
            return
        # call of a call result / subscript: unknown
        self.unknown_calls.append(where)
        self._add(out, ANY, where)

    def _apply_target(self, tm, tf, call, ctx, out, where, how=None):
        if isinstance(tf, tuple):
            kind = tf[0]
            if kind == "builtin":
                for x in self.call_raises.get(tf[1], ()):
                    self._add(out, x, where)
                return
            if kind == "external":
                nm = tf[1]
                if nm in self.enum_names:
                    self._add(out, "ValueError", where)
                elif nm in self.call_raises:
                    for x in self.call_raises[nm]:
                        self._add(out, x, where)
                elif nm not in self.no_raise:
                    self.unknown_calls.append(where + " (external %s)" % nm)
                    self._add(out, ANY, where)
                return
            if kind in ("class", "fixeddict"):
                # instantiating a repo exception class / fixeddict: key names are checked by the table rules
                return
        # a repo function: bind callable-valued arguments
        params = [a.arg for a in tf.args.args]
        binds = dict(how[0]) if isinstance(how, tuple) else {}
        shift = how[1] if isinstance(how, tuple) else 0
        for i, a in enumerate(call.args):
            if isinstance(a, ast.Starred) or i + shift >= len(params):
                break
            is_callable_expr = isinstance(a, (ast.Name, ast.Attribute)) or (isinstance(a, ast.Call) and dotted(a.func) in ("partial", "functools.partial"))
            t = self.callable_targets(a, ctx) if is_callable_expr else None
            if t:
                binds[params[i + shift]] = t
        sub = self.function(tm, tf, binds)
        for k, v in sub.items():
            self._add(out, k, "%s <- %s" % (v, where) if len(v) < 300 else v)

    # ---- statements
    def block(self, stmts, ctx):
        out = OrderedDict()
        for s in stmts:
            for k, v in self.stmt(s, ctx).items():
                out.setdefault(k, v)
        return out

    def stmt(self, s, ctx):
        out = OrderedDict()
        where = "%s:%s `%s`" % (ctx["m"].rel, ctx["fn"].name, short(s, 60))
        if isinstance(s, (ast.FunctionDef, ast.ClassDef, ast.Pass, ast.Global, ast.Nonlocal, ast.Import, ast.ImportFrom, ast.Break, ast.Continue)):
            return out
        if isinstance(s, ast.Raise):
            if s.exc is None:
                self._add(out, "<reraise>", where)
                return out
            out.update(self.expr(s.exc, ctx))
            t = s.exc.func if isinstance(s.exc, ast.Call) else s.exc
            self._add(out, dotted(t) or ANY, where)
            return out
        if isinstance(s, ast.Assert):
            out.update(self.expr(s.test, ctx))
            self._add(out, "AssertionError", where)
            return out
        if isinstance(s, ast.Try):
            body = self.block(s.body, ctx)
            res = OrderedDict()
            caught_any = False
            for k, v in body.items():
                handled = False
                for h in s.handlers:
                    if self._matches(h, k):
                        handled = True
                        break
                if not handled:
                    res.setdefault(k, v)
            for h in s.handlers:
                hb = self.block(h.body, ctx)
                for k, v in hb.items():
                    if k == "<reraise>":
                        # re-raises whatever the handler caught
                        for bk, bv in body.items():
                            if self._matches(h, bk):
                                res.setdefault(bk, bv)
                    else:
                        res.setdefault(k, v)
            for k, v in self.block(s.orelse, ctx).items():
                res.setdefault(k, v)
            for k, v in self.block(s.finalbody, ctx).items():
                res.setdefault(k, v)
            return res
        if isinstance(s, ast.For):
            out.update(self.expr(s.iter, ctx))
            it = s.iter
            if isinstance(it, ast.Call) and dotted(it.func) in ("csv.reader", "csv.DictReader"):
                self._add(out, "csv.Error", where)
            for k, v in self.block(s.body, ctx).items():
                out.setdefault(k, v)
            for k, v in self.block(s.orelse, ctx).items():
                out.setdefault(k, v)
            return out
        if isinstance(s, (ast.While, ast.If)):
            out.update(self.expr(s.test, ctx))
            for k, v in self.block(s.body, ctx).items():
                out.setdefault(k, v)
            for k, v in self.block(s.orelse, ctx).items():
                out.setdefault(k, v)
            return out
        if isinstance(s, ast.With):
            for it in s.items:
                out.update(self.expr(it.context_expr, ctx))
            for k, v in self.block(s.body, ctx).items():
                out.setdefault(k, v)
            return out
        for c in ast.iter_child_nodes(s):
            if isinstance(c, ast.expr):
                for k, v in self.expr(c, ctx).items():
                    out.setdefault(k, v)
        return out

    def _matches(self, handler, raised):
        if raised == "<reraise>":
            return False
        if handler.type is None:
            return True
        types = handler.type.elts if isinstance(handler.type, ast.Tuple) else [handler.type]
        if raised == ANY:
            # an unknown exception is caught only by a catch-all
            return any(dotted(t) in ("Exception", "BaseException") for t in types)
        return any(self.h.is_sub(raised, dotted(t) or "") for t in types)
