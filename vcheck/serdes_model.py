"""E6 (serdes part): the VC-2 bitstream description program of
bitstream/vc2.py as a table of serdes operations per context type.

For every function: its `@context_type(T)` (if any) and the ordered list of
serdes operations it performs, with target names resolved by a small constant
folder (string literals, literal `for` lists, "...{}...".format(x),
x.split("_")[0], string parameters bound at call sites).
"""
import ast
from collections import OrderedDict, namedtuple

from .core import AnalysisError, const_str, dotted, norm, short

PRIMS = {
    "bool": "bool",
    "nbits": "int",
    "uint_lit": "int",
    "uint": "int",
    "sint": "int",
    "bitarray": "bitarray",
    "bytes": "bytes",
}
PAD_OPS = {"byte_align": "bitarray", "bounded_block_end": "bitarray"}
LENGTH_ARG = {"nbits": 1, "uint_lit": 1, "bitarray": 1, "bytes": 1}

Op = namedtuple("Op", "op targets kind node fn nested via entered")
Op.__new__.__defaults__ = ((), None)


class SerdesFunc(object):
    def __init__(self, mod, fn):
        self.mod = mod
        self.fn = fn
        self.name = fn.name
        self.ctype = None
        for d in fn.decorator_list:
            if isinstance(d, ast.Call) and dotted(d.func) == "context_type" and d.args:
                self.ctype = dotted(d.args[0])
        self.params = [a.arg for a in fn.args.args]
        self.serdes_param = self.params[0] if self.params else None


class SerdesModel(object):
    def __init__(self, repo, modspec="bitstream.vc2"):
        self.repo = repo
        self.mod = repo.mod(modspec)
        self.funcs = OrderedDict()
        for name, fn in self.mod.funcs.items():
            sf = SerdesFunc(self.mod, fn)
            if sf.serdes_param == "serdes":
                self.funcs[name] = sf
        if len(self.funcs) < 30:
            raise AnalysisError("bitstream/vc2.py: only %d serdes functions found" % len(self.funcs))
        # string-parameter bindings from call sites: callee -> param -> set(str)
        self.bindings = {}
        self._collect_bindings()
        self._ops = {}

    # ---------------------------------------------------------------- folding
    def _env_for(self, sf):
        env = {}
        for p, vals in self.bindings.get(sf.name, {}).items():
            env[p] = set(vals)
        return env

    def fold(self, e, env):
        """set of possible string values of expression e, or None."""
        s = const_str(e)
        if s is not None:
            return {s}
        if isinstance(e, ast.Name) and e.id in env:
            return set(env[e.id])
        if isinstance(e, ast.Call) and isinstance(e.func, ast.Attribute) and e.func.attr == "format":
            base = self.fold(e.func.value, env)
            if base is None or e.keywords:
                return None
            argsets = [self.fold(a, env) for a in e.args]
            if any(a is None for a in argsets):
                return None
            out = set()
            import itertools

            for b in base:
                for combo in itertools.product(*argsets) if argsets else [()]:
                    try:
                        out.add(b.format(*combo))
                    except (IndexError, KeyError, ValueError):
                        return None
            return out
        if isinstance(e, ast.Subscript) and isinstance(e.value, ast.Call) and isinstance(e.value.func, ast.Attribute) and e.value.func.attr == "split":
            base = self.fold(e.value.func.value, env)
            sep = const_str(e.value.args[0]) if e.value.args else None
            if base is None or sep is None or not isinstance(e.slice, ast.Constant):
                return None
            try:
                return set(b.split(sep)[e.slice.value] for b in base)
            except IndexError:
                return None
        return None

    def _local_env(self, sf, param_env=None):
        """env of string-valued locals: for-loop literal lists and foldable assignments
        (flow-insensitive within the function; each name must have one source)."""
        env = self._env_for(sf) if param_env is None else dict(param_env)
        changed = True
        rounds = 0
        while changed and rounds < 5:
            changed = False
            rounds += 1
            for n in ast.walk(sf.fn):
                if isinstance(n, ast.For) and isinstance(n.target, ast.Name) and isinstance(n.iter, (ast.List, ast.Tuple)):
                    vals = [const_str(x) for x in n.iter.elts]
                    if vals and all(v is not None for v in vals) and n.target.id not in env:
                        env[n.target.id] = set(vals)
                        changed = True
                elif isinstance(n, ast.Assign) and len(n.targets) == 1 and isinstance(n.targets[0], ast.Name) and n.targets[0].id not in env:
                    v = self.fold(n.value, env)
                    if v is not None:
                        env[n.targets[0].id] = v
                        changed = True
        return env

    def _collect_bindings(self):
        # iterate to a fixpoint so that bindings flow through helper chains
        for _ in range(4):
            for sf in self.funcs.values():
                env = self._local_env(sf)
                for n in ast.walk(sf.fn):
                    if isinstance(n, ast.Call) and isinstance(n.func, ast.Name) and n.func.id in self.funcs:
                        callee = self.funcs[n.func.id]
                        for i, a in enumerate(n.args):
                            if i >= len(callee.params):
                                break
                            v = self.fold(a, env)
                            if v is not None and not (isinstance(a, ast.Name) and a.id == "serdes"):
                                self.bindings.setdefault(callee.name, {}).setdefault(callee.params[i], set()).update(v)

    # ---------------------------------------------------------------- operations
    def ops(self, name, param_env=None):
        """ordered serdes operations performed directly by function `name`
        (param_env: string parameters bound by one particular call site)."""
        key = (name, None if param_env is None else tuple(sorted((k, tuple(sorted(v))) for k, v in param_env.items())))
        if key in self._ops:
            return self._ops[key]
        sf = self.funcs[name]
        env = self._local_env(sf, param_env)
        self._last_env = env
        out = []
        for n in self._walk_in_order(sf.fn):
            if not isinstance(n, ast.Call):
                continue
            f = n.func
            if isinstance(f, ast.Attribute) and dotted(f.value) == "serdes":
                op = f.attr
                if op in PRIMS or op in PAD_OPS or op in ("declare_list", "subcontext", "subcontext_enter", "computed_value"):
                    tg = self.fold(n.args[0], env) if n.args else None
                    if tg is None:
                        raise AnalysisError("%s:%s: cannot resolve the target of %s" % (sf.mod.rel, name, short(n)))
                    kind = PRIMS.get(op) or PAD_OPS.get(op) or {"declare_list": "list", "computed_value": "computed"}.get(op, "context")
                    nested = None
                    if op in ("subcontext", "subcontext_enter"):
                        nested = self._nested_type(sf, n)
                    out.append(Op(op, frozenset(tg), kind, n, name, nested))
                elif op in ("subcontext_leave", "bounded_block_begin", "set_context_type", "bounded_block", "is_target_complete", "verify_complete"):
                    out.append(Op(op, frozenset(), None, n, name, dotted(n.args[0]) if op == "set_context_type" and n.args else None))
            elif isinstance(f, ast.Name) and f.id in self.funcs:
                callee = self.funcs[f.id]
                bound = {}
                for i, a in enumerate(n.args):
                    if i < len(callee.params):
                        v = self.fold(a, env)
                        if v is not None:
                            bound[callee.params[i]] = frozenset(v)
                out.append(Op("call", frozenset([f.id]), None, n, name, bound))
        self._ops[key] = out
        return out

    def _walk_in_order(self, fn):
        """AST nodes in source order (good enough for straight-line op lists)."""
        nodes = [n for n in ast.walk(fn) if hasattr(n, "lineno")]
        nodes.sort(key=lambda n: (n.lineno, n.col_offset))
        return nodes

    def _nested_type(self, sf, call):
        """context type of a sub-context: the @context_type of the function
        called inside `with serdes.subcontext(t):`, or the argument of a
        set_context_type() that follows subcontext_enter()."""
        p = getattr(call, "_parent", None)
        while p is not None and not isinstance(p, (ast.With, ast.stmt)):
            p = getattr(p, "_parent", None)
        if isinstance(p, ast.With):
            for n in ast.walk(ast.Module(body=p.body, type_ignores=[])):
                if isinstance(n, ast.Call) and isinstance(n.func, ast.Name) and n.func.id in self.funcs:
                    t = self.funcs[n.func.id].ctype
                    if t:
                        return t
            return None
        # subcontext_enter: look at the next statement(s) in the same block
        stmt = p
        parent = getattr(stmt, "_parent", None)
        for field in ("body", "orelse", "finalbody"):
            blk = getattr(parent, field, None)
            if isinstance(blk, list) and stmt in blk:
                i = blk.index(stmt)
                for nxt in blk[i + 1 : i + 3]:
                    if isinstance(nxt, ast.Expr) and isinstance(nxt.value, ast.Call) and dotted(nxt.value.func) == "serdes.set_context_type":
                        return dotted(nxt.value.args[0])
        return None

    # ---------------------------------------------------------------- per context type
    def context_ops(self):
        """context type name -> list of Op, including the operations of helper
        functions without their own @context_type (inlined at each caller)."""
        out = OrderedDict()

        def gather(name, seen, param_env, via=()):
            res = []
            for op in self.ops(name, param_env):
                if op.op == "call":
                    callee = list(op.targets)[0]
                    if self.funcs[callee].ctype is None and callee not in seen:
                        res.extend(gather(callee, seen | {callee}, op.nested or {}, via + (op.node,)))
                else:
                    res.append(op._replace(via=via))
            return res

        def with_subcontext_type(op):
            """nested type if the op sits lexically inside `with serdes.subcontext(t):`
            of its own function (and is not that with-item itself)."""
            p = getattr(op.node, "_parent", None)
            child = op.node
            while p is not None and not isinstance(p, ast.FunctionDef):
                if isinstance(p, ast.With) and child in p.body:
                    for it in p.items:
                        c = it.context_expr
                        if isinstance(c, ast.Call) and dotted(c.func) == "serdes.subcontext":
                            return self._nested_type(self.funcs[op.fn], c) or "?"
                child = p
                p = getattr(p, "_parent", None)
            return None

        for name, sf in self.funcs.items():
            if not sf.ctype:
                continue
            stack = [(sf.ctype, None)]
            for op in gather(name, {name}, None):
                if op.op == "subcontext_leave":
                    if len(stack) > 1:
                        stack.pop()
                    continue
                inner = with_subcontext_type(op)
                cur, entered = (inner, None) if inner else stack[-1]
                out.setdefault(cur, []).append(op._replace(entered=entered))
                if op.op == "subcontext_enter":
                    stack.append((op.nested or "?", op.node))
        return out
