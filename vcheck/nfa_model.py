"""Extraction of the automaton construction that symbol_re.NFA.from_ast
*actually performs*, as a gadget table usable by vcheck.regex.build, plus the
edge-direction semantics of NFANode.add_transition.

Abstract interpretation of from_ast: each `isinstance(ast, X)` / `ast is None`
branch is a straight-line program over NFA values:
    v = cls()                       fresh NFA (two fresh nodes, see NFA.__init__)
    n = NFANode()                   fresh node
    v = cls.from_ast(ast.<field>)   sub-automaton for a child of the AST node
    a.{start,final}.add_transition(b.{start,final}[, ast.symbol])
    return v | cls(p, q)
Anything else in a branch is an AnalysisError (unknown idiom).
"""
import ast
from collections import OrderedDict

from .core import AnalysisError, dotted, norm, short

KIND_OF_CLASS = {"Symbol": "sym", "Concatenation": "cat", "Union": "alt", "Star": "star"}
FIELD_ROLE = {"a": "a", "b": "b", "expr": "a"}


def nfa_init_creates_fresh_nodes(m):
    """NFA.__init__(start=None, final=None): self.start = start or NFANode()."""
    cls = m.classes.get("NFA")
    if cls is None:
        raise AnalysisError("anchor vanished: symbol_re.NFA")
    init = None
    for s in cls.body:
        if isinstance(s, ast.FunctionDef) and s.name == "__init__":
            init = s
    if init is None:
        return False
    ok = {"start": False, "final": False}
    params = [a.arg for a in init.args.args[1:]]
    for s in init.body:
        if isinstance(s, ast.Assign) and len(s.targets) == 1 and isinstance(s.targets[0], ast.Attribute) and dotted(s.targets[0].value) == "self":
            attr = s.targets[0].attr
            v = s.value
            if attr in ok:
                if isinstance(v, ast.BoolOp) and isinstance(v.op, ast.Or) and len(v.values) == 2 and dotted(v.values[0]) == attr and isinstance(v.values[1], ast.Call) and dotted(v.values[1].func) == "NFANode" and attr in params:
                    ok[attr] = True
                elif isinstance(v, ast.IfExp) and isinstance(v.orelse if dotted(v.body) == attr else v.body, ast.Call):
                    ok[attr] = True
    return all(ok.values()) and params[:2] == ["start", "final"]


def extract_gadgets(repo):
    """returns (gadgets dict usable by regex.build, per-kind info, problems)"""
    m = repo.mod("symbol_re")
    cm, cls = repo.cls("symbol_re:NFA")
    fn = None
    for s in cls.body:
        if isinstance(s, ast.FunctionDef) and s.name == "from_ast":
            fn = s
    if fn is None:
        raise AnalysisError("anchor vanished: NFA.from_ast")
    if not nfa_init_creates_fresh_nodes(m):
        raise AnalysisError("NFA.__init__ no longer creates fresh start/final nodes by default")
    clsname = fn.args.args[0].arg
    astname = fn.args.args[1].arg
    body = [s for s in fn.body if not (isinstance(s, ast.Expr) and isinstance(s.value, ast.Constant))]
    if len(body) != 1 or not isinstance(body[0], ast.If):
        raise AnalysisError("NFA.from_ast is no longer a single if/elif dispatch")
    gadgets = OrderedDict()
    dead = []
    node = body[0]
    while True:
        kind = _branch_kind(node.test, astname)
        if kind is None:
            raise AnalysisError("NFA.from_ast: unrecognised dispatch test %s" % norm(node.test))
        if kind in gadgets:
            dead.append(kind)  # later duplicate branch is unreachable
        else:
            gadgets[kind] = _interp_branch(node.body, clsname, astname, kind)
        if len(node.orelse) == 1 and isinstance(node.orelse[0], ast.If):
            node = node.orelse[0]
        elif not node.orelse:
            break
        else:
            raise AnalysisError("NFA.from_ast: unexpected else branch")
    return gadgets, dead


def _branch_kind(test, astname):
    if isinstance(test, ast.Compare) and len(test.ops) == 1 and isinstance(test.ops[0], ast.Is) and dotted(test.left) == astname and isinstance(test.comparators[0], ast.Constant) and test.comparators[0].value is None:
        return "eps"
    if isinstance(test, ast.Call) and dotted(test.func) == "isinstance" and len(test.args) == 2 and dotted(test.args[0]) == astname:
        return KIND_OF_CLASS.get(dotted(test.args[1]))
    return None


def _interp_branch(stmts, clsname, astname, kind):
    env = {}  # var -> ("nfa", startref, finalref) | ("node", ref)
    new = [0]
    subs = []
    edges = []

    def fresh():
        new[0] += 1
        return ("new", new[0] - 1)

    def node_ref(e):
        # X.start / X.final / node var
        if isinstance(e, ast.Name) and e.id in env and env[e.id][0] == "node":
            return env[e.id][1]
        if isinstance(e, ast.Attribute) and e.attr in ("start", "final") and isinstance(e.value, ast.Name) and e.value.id in env and env[e.value.id][0] == "nfa":
            return env[e.value.id][1 if e.attr == "start" else 2]
        raise AnalysisError("NFA.from_ast[%s]: unrecognised node expression %s" % (kind, norm(e)))

    def value(e):
        if isinstance(e, ast.Call):
            f = dotted(e.func)
            if f == clsname and not e.args and not e.keywords:
                return ("nfa", fresh(), fresh())
            if f == clsname and len(e.args) == 2:
                return ("nfa", node_ref(e.args[0]), node_ref(e.args[1]))
            if f == "NFANode" and not e.args:
                return ("node", fresh())
            if f == "%s.from_ast" % clsname and len(e.args) == 1:
                a = e.args[0]
                if isinstance(a, ast.Attribute) and dotted(a.value) == astname and a.attr in FIELD_ROLE:
                    role = FIELD_ROLE[a.attr]
                    if role in subs:
                        raise AnalysisError("NFA.from_ast[%s]: sub-expression %s built twice" % (kind, a.attr))
                    subs.append(role)
                    return ("nfa", ("sub", role, "start"), ("sub", role, "final"))
        raise AnalysisError("NFA.from_ast[%s]: unrecognised value %s" % (kind, norm(e)))

    ret = None
    for s in stmts:
        if isinstance(s, ast.Assign) and len(s.targets) == 1 and isinstance(s.targets[0], ast.Name):
            env[s.targets[0].id] = value(s.value)
        elif isinstance(s, ast.Expr) and isinstance(s.value, ast.Call) and isinstance(s.value.func, ast.Attribute) and s.value.func.attr == "add_transition":
            c = s.value
            src = node_ref(c.func.value)
            if not c.args:
                raise AnalysisError("add_transition without destination")
            dst = node_ref(c.args[0])
            label = None
            if len(c.args) > 1 or c.keywords:
                lab = c.args[1] if len(c.args) > 1 else c.keywords[0].value
                if isinstance(lab, ast.Attribute) and dotted(lab.value) == astname and lab.attr == "symbol":
                    label = "SYM"
                elif isinstance(lab, ast.Constant) and lab.value is None:
                    label = None
                else:
                    raise AnalysisError("NFA.from_ast[%s]: unrecognised transition label %s" % (kind, norm(lab)))
            edges.append((src, dst, label))
        elif isinstance(s, ast.Return) and s.value is not None:
            v = env.get(s.value.id) if isinstance(s.value, ast.Name) else value(s.value)
            if v is None or v[0] != "nfa":
                raise AnalysisError("NFA.from_ast[%s]: unrecognised return %s" % (kind, norm(s.value)))
            ret = v
            break
        elif isinstance(s, ast.Expr) and isinstance(s.value, ast.Constant):
            continue
        else:
            raise AnalysisError("NFA.from_ast[%s]: unrecognised statement %s" % (kind, short(s)))
    if ret is None:
        raise AnalysisError("NFA.from_ast[%s]: branch does not return an NFA" % kind)
    return dict(new=new[0], subs=subs, edges=edges, start=ret[1], final=ret[2])


def add_transition_semantics(repo):
    """Which objects NFANode.add_transition mutates.  Returns dict:
    eps_reverse: True if an epsilon transition also inserts dest->self,
    sym_reverse: likewise for symbol transitions, other: list of other stores."""
    m, cls = repo.cls("symbol_re:NFANode")
    fn = None
    for s in cls.body:
        if isinstance(s, ast.FunctionDef) and s.name == "add_transition":
            fn = s
    if fn is None:
        raise AnalysisError("anchor vanished: NFANode.add_transition")
    params = [a.arg for a in fn.args.args]
    selfn, dest = params[0], params[1]
    sym = params[2] if len(params) > 2 else None
    info = dict(eps_forward=False, sym_forward=False, eps_reverse=False, sym_reverse=False, other=[])

    def classify(call, branch):
        # <obj>.transitions[<sym>].add(<node>)
        f = call.func
        if not (isinstance(f, ast.Attribute) and f.attr == "add" and isinstance(f.value, ast.Subscript) and isinstance(f.value.value, ast.Attribute) and f.value.value.attr == "transitions"):
            return False
        owner = dotted(f.value.value.value)
        arg = dotted(call.args[0]) if call.args else None
        if owner == selfn and arg == dest:
            for b in branch:
                info[b + "_forward"] = True
            return True
        if owner == dest and arg == selfn:
            for b in branch:
                info[b + "_reverse"] = True
            return True
        return False

    def walk(stmts, branch):
        for s in stmts:
            if isinstance(s, ast.Expr) and isinstance(s.value, ast.Constant):
                continue
            if isinstance(s, ast.If):
                t = s.test
                if isinstance(t, ast.Compare) and len(t.ops) == 1 and dotted(t.left) == sym and isinstance(t.comparators[0], ast.Constant) and t.comparators[0].value is None:
                    if isinstance(t.ops[0], ast.Is):
                        walk(s.body, ["eps"])
                        walk(s.orelse, ["sym"])
                        continue
                    if isinstance(t.ops[0], ast.IsNot):
                        walk(s.body, ["sym"])
                        walk(s.orelse, ["eps"])
                        continue
                info["other"].append(short(s))
                continue
            if isinstance(s, ast.Expr) and isinstance(s.value, ast.Call) and classify(s.value, branch):
                continue
            info["other"].append(short(s))

    walk(fn.body, ["eps", "sym"])
    return info
