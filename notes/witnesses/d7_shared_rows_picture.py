"""Witness (C04/C11): a picture whose rows are one shared list object
([[v] * w] * h, the usual Python idiom for a constant plane) is encoded wrongly:
encoder.pictures passes deepcopy(picture) to picture_encode, deepcopy preserves
the sharing, and remove_offset_component / the in-place transform then update
the single shared row once per row index.  One-off demonstration."""
import sys, io
sys.path.insert(0, "/repo/tests")
from sample_codec_features import MINIMAL_CODEC_FEATURES
from vc2_conformance.codec_features import CodecFeatures
from vc2_conformance.bitstream import autofill_and_serialise_stream, Stream
from vc2_conformance.encoder import make_sequence
from vc2_conformance.pseudocode.state import State
from vc2_conformance.decoder import init_io, parse_stream

cf = CodecFeatures(MINIMAL_CODEC_FEATURES, lossless=True, picture_bytes=None)
vp = cf["video_parameters"]
w, h = vp["frame_width"], vp["frame_height"]

def run(pic):
    seq = make_sequence(cf, [pic])
    f = io.BytesIO()
    autofill_and_serialise_stream(f, Stream(sequences=[seq]))
    f.seek(0)
    out = []
    st = State(_output_picture_callback=lambda p, v, m: out.append(p))
    init_io(st, f)
    parse_stream(st)
    return out[0]

def plane(v, w, h, shared):
    return [[v] * w] * h if shared else [[v] * w for _ in range(h)]

bad = 0
for shared in (False, True):
    pic = {"Y": plane(100, w, h, shared), "C1": plane(50, w, h, shared), "C2": plane(200, w, h, shared), "pic_num": 0}
    dec = run(pic)
    same = all(dec[c] == [list(r) for r in pic[c]] for c in ("Y", "C1", "C2"))
    print("rows shared" if shared else "rows distinct", "-> lossless round trip exact:", same, "(decoded Y row 0: %s)" % dec["Y"][0][:4])
    bad += (not same)
sys.exit(1 if bad else 0)
