"""Witness for defect D3 (C28): a CSV with a field longer than csv's field
size limit. Before the fix: _csv.Error escapes. After: InvalidCodecFeaturesError."""
import sys
from vc2_conformance.codec_features import read_codec_features_csv, InvalidCodecFeaturesError
lines = ["name,a\n", "level," + "1" * 200000 + "\n"]
try:
    read_codec_features_csv(lines)
    print("returned")
except InvalidCodecFeaturesError as e:
    print("InvalidCodecFeaturesError:", str(e)[:60])
except Exception as e:
    print("ESCAPED:", type(e).__module__ + "." + type(e).__name__, e); sys.exit(1)
