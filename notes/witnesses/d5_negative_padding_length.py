"""Witness for defect D5 (C06): a padding data unit whose next_parse_offset (5) is
smaller than the parse-info header (13 bytes). The deserialiser parses the
stream to completion; before the fix re-serialising the result raises
OutOfRangeError, after the fix it reproduces the bytes."""
import io, struct, sys
from vc2_conformance.bitstream import (
    BitstreamReader, BitstreamWriter, Deserialiser, Serialiser, parse_stream,
)
from vc2_conformance.pseudocode.state import State

def pi(code, nxt, prev):
    return struct.pack(">IBII", 0x42424344, code, nxt, prev)

data = pi(0x30, 5, 0) + pi(0x10, 0, 13)      # padding unit (offset 5 < 13), end of sequence
des = Deserialiser(BitstreamReader(io.BytesIO(data)))
with des:
    parse_stream(des, State())
out = io.BytesIO()
w = BitstreamWriter(out)
try:
    with Serialiser(w, des.context) as ser:
        parse_stream(ser, State())
    w.flush()
except Exception as e:
    print("RE-SERIALISATION FAILED:", type(e).__name__, e); sys.exit(1)
print("round trip identical:", out.getvalue() == data)
sys.exit(0 if out.getvalue() == data else 1)
