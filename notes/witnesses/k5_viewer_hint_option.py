"""
C02 witness 1 (interpretation-dependent, see finding1.json).

For six fragment-related conformance errors the validator's
bitstream_viewer_hint() is a vc2-bitstream-viewer command line which the
viewer itself rejects ("unrecognized arguments: --to_offset ..."): the hint
spells the option ``--to_offset`` but the viewer only knows ``--to-offset``.

The script builds six tiny malformed streams by hand, runs the unmodified
validator (vc2_conformance.decoder.parse_stream) on each, renders the hint
exactly like vc2-bitstream-validator does and hands every suggested command to
the real vc2-bitstream-viewer command line parser.

Exit status: 0 if every suggested command is accepted by the viewer, 1 if any
is rejected (or if anything other than a ConformanceError escapes).

Run:  cd /tmp/wt/HC02 && PYTHONPATH=/tmp/wt/HC02 /venv/bin/python deliver/witness1.py
"""
import contextlib
import io
import shlex
import sys
from textwrap import dedent

from vc2_conformance.pseudocode.state import State
from vc2_conformance.decoder import init_io, parse_stream, ConformanceError
from vc2_conformance.decoder.io import tell
from vc2_conformance.bitstream.io import to_bit_offset
from vc2_conformance.scripts.vc2_bitstream_viewer import parse_args as viewer_parse_args


class BW(object):
    """Minimal bit writer."""

    def __init__(self):
        self.bits = []

    def bit(self, b):
        self.bits.append(1 if b else 0)

    def nbits(self, n, v):
        for i in reversed(range(n)):
            self.bits.append((v >> i) & 1)

    def uint(self, v):  # interleaved exp-Golomb (A.4.3)
        v += 1
        for i in reversed(range(v.bit_length() - 1)):
            self.bits.append(0)
            self.bits.append((v >> i) & 1)
        self.bits.append(1)

    def tobytes(self):
        bits = self.bits + [0] * (-len(self.bits) % 8)
        return bytes(
            bytearray(
                int("".join(map(str, bits[i : i + 8])), 2) for i in range(0, len(bits), 8)
            )
        )


def sequence_header():
    b = BW()
    for v in (3, 0, 3, 0, 0):  # major, minor, profile=HQ, level=0, base fmt 0
        b.uint(v)
    b.bit(1), b.uint(4), b.uint(4)  # custom frame size 4x4
    for _ in range(4):  # colour diff fmt, scan fmt, frame rate, pixel aspect
        b.bit(0)
    b.bit(1)  # custom clean area 4x4+0+0
    for v in (4, 4, 0, 0):
        b.uint(v)
    b.bit(0), b.bit(0)  # signal range, colour spec: defaults
    b.uint(0)  # pictures are frames
    return b.tobytes()


def transform_parameters(b, slices_x=1, slices_y=1):
    b.uint(4), b.uint(1)  # wavelet_index=4 (Haar with shift), dwt_depth=1
    b.bit(0), b.bit(0)  # no asymmetric transform
    b.uint(slices_x), b.uint(slices_y)
    b.uint(0), b.uint(1)  # slice_prefix_bytes=0, slice_size_scaler=1
    b.bit(0)  # default quantisation matrix


def first_fragment(picture_number=0, slices_x=1, slices_y=1):
    b = BW()
    b.nbits(32, picture_number), b.nbits(16, 0), b.nbits(16, 0)
    transform_parameters(b, slices_x, slices_y)
    return b.tobytes()


def slice_fragment(picture_number, count, x_offset, y_offset, nslices):
    b = BW()
    b.nbits(32, picture_number), b.nbits(16, 0), b.nbits(16, count)
    b.nbits(16, x_offset), b.nbits(16, y_offset)
    for _ in range(nslices):
        b.nbits(32, 0)  # qindex=0, three zero-length components
    return b.tobytes()


def picture(picture_number):
    b = BW()
    b.nbits(32, picture_number)
    transform_parameters(b)
    b.bits += [0] * (-len(b.bits) % 8)
    b.nbits(32, 0)
    return b.tobytes()


def serialise(units):
    out = bytearray()
    last = None
    for parse_code, payload in units:
        offset = len(out)
        nxt = 0 if parse_code == 0x10 else 13 + len(payload)
        prev = 0 if last is None else offset - last
        out += b"BBCD" + bytearray([parse_code])
        out += bytearray((nxt >> s) & 0xFF for s in (24, 16, 8, 0))
        out += bytearray((prev >> s) & 0xFF for s in (24, 16, 8, 0))
        out += payload
        last = offset
    return bytes(out)


SH, EOS, HQ_PIC, HQ_FRAG = 0x00, 0x10, 0xE8, 0xEC
hdr = sequence_header()
STREAMS = [
    ("FragmentedPictureRestarted",
     [(SH, hdr), (HQ_FRAG, first_fragment(0)), (HQ_FRAG, first_fragment(1)), (EOS, b"")]),
    ("SequenceContainsIncompleteFragmentedPicture",
     [(SH, hdr), (HQ_FRAG, first_fragment(0)), (EOS, b"")]),
    ("PictureInterleavedWithFragmentedPicture",
     [(SH, hdr), (HQ_FRAG, first_fragment(0)), (HQ_PIC, picture(1)), (EOS, b"")]),
    ("PictureNumberChangedMidFragmentedPicture",
     [(SH, hdr), (HQ_FRAG, first_fragment(0)), (HQ_FRAG, slice_fragment(1, 1, 0, 0, 1)), (EOS, b"")]),
    ("TooManySlicesInFragmentedPicture",
     [(SH, hdr), (HQ_FRAG, first_fragment(0)), (HQ_FRAG, slice_fragment(0, 2, 0, 0, 2)), (EOS, b"")]),
    ("FragmentSlicesNotContiguous",
     [(SH, hdr), (HQ_FRAG, first_fragment(0, 2, 1)), (HQ_FRAG, slice_fragment(0, 1, 1, 0, 1)), (EOS, b"")]),
]


def main():
    failures = 0
    for expected, units in STREAMS:
        data = serialise(units)
        state = State()
        try:
            init_io(state, io.BytesIO(data))
            parse_stream(state)
            print("%-45s UNEXPECTED: stream accepted" % expected)
            failures += 1
            continue
        except ConformanceError as e:
            error = e
        name = type(error).__name__
        if name != expected:
            print("note: expected %s, validator reported %s" % (expected, name))

        # Exactly what vc2-bitstream-validator does with the exception
        error.explain()
        offset = error.offending_offset()
        if offset is None:
            offset = to_bit_offset(*tell(state))
        hint = dedent(error.bitstream_viewer_hint()).strip().format(
            cmd="vc2-bitstream-viewer", file="stream.vc2", offset=offset
        )

        for line in hint.splitlines():
            line = line.strip()
            if not line.startswith("vc2-bitstream-viewer"):
                continue
            err = io.StringIO()
            try:
                with contextlib.redirect_stderr(err):
                    viewer_parse_args(shlex.split(line)[1:])
                print("%-45s hint accepted by viewer: %s" % (name, line))
            except SystemExit:
                failures += 1
                print("%-45s hint REJECTED by viewer: %s" % (name, line))
                print("    viewer says: %s" % err.getvalue().strip().splitlines()[-1])
    print()
    if failures:
        print("VIOLATION: %d suggested bitstream viewer command(s) are not valid "
              "vc2-bitstream-viewer invocations" % failures)
        return 1
    print("OK: every hint is a valid vc2-bitstream-viewer invocation")
    return 0


if __name__ == "__main__":
    sys.exit(main())
