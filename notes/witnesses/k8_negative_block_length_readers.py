"""
C20 witness 1: for NEGATIVE bounded-block lengths the bitstream reader
(BitstreamReader) and the validator's reader (decoder.io.read_bitb & co)
disagree on the values read and on the resulting bit position.

Exhaustive over all 1-byte bit strings followed by a fixed sentinel byte, for
block lengths -1..-3; compares read_bit/read_bitb, read_uint/read_uintb and
read_sint/read_sintb and the tell() afterwards.
"""
import io
import sys

from vc2_conformance.bitstream.io import BitstreamReader
from vc2_conformance.decoder import io as dio
from vc2_conformance.pseudocode.state import State

mismatches = []
for length in (-1, -2, -3):
    for byte in range(256):
        data = bytes([byte, 0x5A])
        for name in ("bit", "uint", "sint"):
            # Bitstream (serdes) reader
            r = BitstreamReader(io.BytesIO(data))
            r.bounded_block_begin(length)
            a = {"bit": r.read_bit, "uint": r.read_uint, "sint": r.read_sint}[name]()
            a_tell = r.tell()
            r.bounded_block_end()

            # Validator's reader
            s = State()
            dio.init_io(s, io.BytesIO(data))
            s["bits_left"] = length
            b = {"bit": dio.read_bitb, "uint": dio.read_uintb, "sint": dio.read_sintb}[
                name
            ](s)
            dio.flush_inputb(s)
            b_tell = dio.tell(s)

            if (a, a_tell) != (b, b_tell):
                mismatches.append((length, data.hex(), name, (a, a_tell), (b, b_tell)))

if mismatches:
    print("%d disagreements between BitstreamReader and decoder.io" % len(mismatches))
    for m in mismatches[:8]:
        print(
            "  block length %d, data %s, read_%s: BitstreamReader -> %r, decoder.io -> %r"
            % m
        )
    sys.exit(1)
print("readers agree for negative bounded block lengths")
sys.exit(0)
