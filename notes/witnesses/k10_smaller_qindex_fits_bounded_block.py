"""
C14 witness 1: the lossy encoder does not pick the smallest quantisation index
whose coefficients fit the slice budget.

calculate_coeffs_bits() charges the full signed exp-Golomb length of the last
non-zero coefficient, although inside a bounded block every trailing '1' bit
(data bit 1 / stop bit / negative sign bit) may fall past the end of the block
(13.5.x / A.4.2: reads past the end of a bounded block return 1).  The
library's own serialiser writes such a block without complaint, and the
library's own conformance decoder accepts and decodes it, so the coefficients
*do* fit at a smaller qindex than the one the encoder selects.

For each profile we:
  1. encode a 1x1 picture with make_sequence() and note the chosen qindex q
  2. for every qq in [minimum_qindex, q) re-quantise the very same transform
     coefficients with the library's quantize_coeffs(), put them into the very
     same slice (same length fields / same slice_bytes => same budget),
     serialise with the library, check the stream has the identical size, and
     decode with the library's conformance decoder.
If any smaller qq round-trips, the encoder's choice was not the smallest
fitting index -> exit 1.
"""
import sys
from io import BytesIO
from copy import deepcopy

from vc2_data_tables import (
    Levels, Profiles, PictureCodingModes, WaveletFilters,
    ColorDifferenceSamplingFormats, SourceSamplingModes, PresetColorPrimaries,
    PresetColorMatrices, PresetTransferFunctions,
)
from vc2_conformance.codec_features import CodecFeatures
from vc2_conformance.pseudocode.video_parameters import VideoParameters
from vc2_conformance.pseudocode.state import State
from vc2_conformance.bitstream import (
    Stream, autofill_and_serialise_stream, BitstreamReader, Deserialiser,
    parse_stream,
)
from vc2_conformance.encoder import make_sequence
from vc2_conformance.encoder.pictures import (
    transform_and_slice_picture, quantize_coeffs, interleave,
)
from vc2_conformance import decoder

MIN_QINDEX = 0


def features(profile, picture_bytes):
    vp = VideoParameters(
        frame_width=1, frame_height=1,
        color_diff_format_index=ColorDifferenceSamplingFormats.color_4_4_4,
        source_sampling=SourceSamplingModes.progressive, top_field_first=True,
        frame_rate_numer=1, frame_rate_denom=1,
        pixel_aspect_ratio_numer=1, pixel_aspect_ratio_denom=1,
        clean_width=1, clean_height=1, left_offset=0, top_offset=0,
        luma_offset=0, luma_excursion=255,
        color_diff_offset=128, color_diff_excursion=255,
        color_primaries_index=PresetColorPrimaries.hdtv,
        color_matrix_index=PresetColorMatrices.hdtv,
        transfer_function_index=PresetTransferFunctions.tv_gamma,
    )
    return CodecFeatures(
        name="w", level=Levels.unconstrained, profile=profile,
        picture_coding_mode=PictureCodingModes.pictures_are_frames,
        video_parameters=vp,
        wavelet_index=WaveletFilters.haar_no_shift,
        wavelet_index_ho=WaveletFilters.haar_no_shift,
        dwt_depth=0, dwt_depth_ho=0, slices_x=1, slices_y=1,
        fragment_slice_count=0, lossless=False, picture_bytes=picture_bytes,
        quantization_matrix={0: {"LL": 0}},
    )


def get_slice(seq, name):
    for du in seq["data_units"]:
        if "picture_parse" in du:
            td = du["picture_parse"]["wavelet_transform"]["transform_data"]
            return td[name][0]
    raise AssertionError("no picture")


def serialise(seq):
    f = BytesIO()
    # NB: serialise a private copy (auto-filling mutates the description)
    autofill_and_serialise_stream(f, Stream(sequences=[deepcopy(seq)]))
    return f.getvalue()


def decode(data):
    """Returns (decoded pictures, deserialised first slice dicts)."""
    out = []
    st = State(_output_picture_callback=lambda p, v, m: out.append(p))
    decoder.init_io(st, BytesIO(data))
    decoder.parse_stream(st)  # raises on any non-conformance
    return out


def reparse_slice(data, name):
    with Deserialiser(BitstreamReader(BytesIO(data))) as des:
        parse_stream(des, State())
    return get_slice(des.context["sequences"][0], name)


def check(profile, picture_bytes, picture):
    cf = features(profile, picture_bytes)
    hq = profile == Profiles.high_quality
    name = "hq_slices" if hq else "ld_slices"
    coeffs = transform_and_slice_picture(cf, picture)[0][0]

    seq = make_sequence(cf, [picture], minimum_qindex=MIN_QINDEX)
    chosen = get_slice(seq, name)
    q = chosen["qindex"]
    ref_data = serialise(seq)
    ref_pics = decode(ref_data)
    print("[%s] transform coefficients Y=%r C1=%r C2=%r, picture_bytes=%d" % (
        profile.name, coeffs.Y.coeff_values, coeffs.C1.coeff_values,
        coeffs.C2.coeff_values, picture_bytes))
    print("[%s] encoder chose qindex=%d; slice=%r; stream is %d bytes; decodes to %r" % (
        profile.name, q, dict(chosen), len(ref_data), ref_pics))

    smaller_fitting = []
    for qq in range(MIN_QINDEX, q):
        cand = deepcopy(seq)
        s = get_slice(cand, name)
        s["qindex"] = qq
        yq, c1q, c2q = [
            quantize_coeffs(qq, c.coeff_values, c.quant_matrix_values) for c in coeffs
        ]
        if hq:
            # Identical length fields => identical budget
            s["y_transform"], s["c1_transform"], s["c2_transform"] = yq, c1q, c2q
        else:
            # slice_y_length kept as chosen by the encoder; slice_bytes
            # unchanged => identical budget
            s["y_transform"] = yq
            s["c_transform"] = interleave(c1q, c2q)
        try:
            data = serialise(cand)  # library serialiser: raises if it does not fit
            pics = decode(data)  # library conformance decoder
            got = reparse_slice(data, name)
        except Exception as e:  # does not fit / not conformant
            continue
        if len(data) != len(ref_data):
            continue
        if hq:
            ok = (list(got["y_transform"]), list(got["c1_transform"]),
                  list(got["c2_transform"])) == (yq, c1q, c2q)
        else:
            ok = (list(got["y_transform"]), list(got["c_transform"])) == (
                yq, interleave(c1q, c2q))
        if ok and got["qindex"] == qq:
            smaller_fitting.append((qq, pics))

    for qq, pics in smaller_fitting:
        print("[%s]   qindex=%d ALSO fits the same slice budget (same stream size, "
              "accepted by conformance decoder, coefficients round-trip); decodes to %r"
              % (profile.name, qq, pics))
    return q, smaller_fitting


def main():
    bad = False
    # HQ: 1 slice, picture_bytes = 4 (overhead) + 1 => 8 bits for coefficients.
    # Y coefficient -30 = '0101010111' : only the first 7 bits need to be stored.
    q, fits = check(
        Profiles.high_quality, 5,
        {"Y": [[98]], "C1": [[128]], "C2": [[128]], "pic_num": 0},
    )
    if fits:
        bad = True
    # LD: 1 slice of 2 bytes => 16 - 7 (qindex) - 4 (slice_y_length) = 5 bits.
    # C1 = C2 = -2 = '0111' '0111': only the first 5 bits need to be stored.
    q, fits = check(
        Profiles.low_delay, 2,
        {"Y": [[128]], "C1": [[126]], "C2": [[126]], "pic_num": 0},
    )
    if fits:
        bad = True

    if bad:
        print("VIOLATION: encoder did not choose the smallest qindex whose "
              "coefficients fit the slice budget")
        return 1
    print("OK: no smaller qindex fits")
    return 0


if __name__ == "__main__":
    sys.exit(main())
