"""
C05 witness 3: the lossless_quantization decoder test case generator picks a
quantisation index which does not fit the 8 bit qindex field of a high quality
slice when the (valid) lossless configuration's custom quantisation matrix has
an entry >= 249, and dies with OutOfRangeError instead of producing a
conformant stream (or skipping the test case).

Run:  cd /tmp/wt/HC05 && PYTHONPATH=/tmp/wt/HC05 /venv/bin/python deliver/witness3.py
"""
import sys
import logging
import traceback
from io import BytesIO

sys.path.insert(0, "tests")

from vc2_conformance.codec_features import CodecFeatures
from vc2_conformance.bitstream import autofill_and_serialise_stream
from vc2_conformance.pseudocode.state import State
from vc2_conformance.decoder import init_io, parse_stream
from vc2_conformance.test_cases import normalise_test_case_generator
from vc2_conformance.test_cases.decoder.pictures import static_gray, static_noise
from vc2_conformance.test_cases.decoder.lossless_quantization import (
    lossless_quantization,
)

from sample_codec_features import MINIMAL_CODEC_FEATURES

logging.disable(logging.WARNING)

# The test suite's minimal format, lossless, with a custom quantisation matrix
# whose HH entry is 249 (quantisation matrix entries are unbounded exp-golomb
# coded unsigned integers (12.4.5.3)).
codec_features = CodecFeatures(
    MINIMAL_CODEC_FEATURES,
    lossless=True,
    picture_bytes=None,
    quantization_matrix={0: {"LL": 0}, 1: {"HL": 1, "LH": 1, "HH": 249}},
)


def validate(stream):
    f = BytesIO()
    autofill_and_serialise_stream(f, stream)
    f.seek(0)
    n = [0]

    def cb(pic, vp, pcm):
        assert vp == codec_features["video_parameters"]
        assert pcm == codec_features["picture_coding_mode"]
        n[0] += 1

    state = State(_output_picture_callback=cb)
    init_io(state, f)
    parse_stream(state)
    return n[0]


# The configuration is valid: static_gray (used by check_codec_features_valid)
# and a noise picture both encode and validate.
for gen in (static_gray, static_noise):
    (tc,) = normalise_test_case_generator(gen, codec_features)
    assert validate(tc.value) == 1
print("configuration is valid: static_gray and static_noise accepted by validator")

try:
    count = 0
    for tc in normalise_test_case_generator(lossless_quantization, codec_features):
        validate(tc.value)
        count += 1
    print("lossless_quantization produced {} valid test case(s)".format(count))
    sys.exit(0)
except Exception as e:
    traceback.print_exc()
    print(
        "VIOLATED: lossless_quantization generator raised {}: {}".format(
            type(e).__name__, e
        )
    )
    sys.exit(1)
