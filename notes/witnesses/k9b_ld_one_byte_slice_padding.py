"""
C05 witness 1: slice_padding_data[Y_*] decoder test cases cannot be serialised
for a valid low-delay configuration whose slices are one byte long.

Run:  cd /tmp/wt/HC05 && PYTHONPATH=/tmp/wt/HC05 /venv/bin/python deliver/witness1.py
"""
import sys
import logging
from io import BytesIO

sys.path.insert(0, "tests")

from vc2_data_tables import Profiles

from vc2_conformance.codec_features import CodecFeatures
from vc2_conformance.bitstream import autofill_and_serialise_stream
from vc2_conformance.pseudocode.state import State
from vc2_conformance.decoder import init_io, parse_stream
from vc2_conformance.picture_generators import mid_gray
from vc2_conformance.test_cases import normalise_test_case_generator
from vc2_conformance.test_cases.decoder.pictures import (
    static_gray,
    slice_padding_data,
)

from sample_codec_features import MINIMAL_CODEC_FEATURES

logging.disable(logging.WARNING)

# The test suite's minimal 8x4, 8 bit, 4:4:4, Haar, 2x1 slice format, switched
# to the low delay profile with one byte per slice (picture_bytes == number of
# slices).
codec_features = CodecFeatures(
    MINIMAL_CODEC_FEATURES,
    profile=Profiles.low_delay,
    picture_bytes=2,
)


def decode(stream):
    f = BytesIO()
    autofill_and_serialise_stream(f, stream)
    f.seek(0)
    pictures = []
    state = State(
        _output_picture_callback=lambda pic, vp, pcm: pictures.append((pic, vp, pcm))
    )
    init_io(state, f)
    parse_stream(state)
    return pictures


# 1. The configuration is valid in the sense used by vc2-test-case-generator
#    (check_codec_features_valid): the static_gray stream can be generated and
#    is accepted by the validator.
(gray_tc,) = normalise_test_case_generator(static_gray, codec_features)
gray_pictures = decode(gray_tc.value)
expected = next(
    iter(
        mid_gray(
            codec_features["video_parameters"], codec_features["picture_coding_mode"]
        )
    )
)
assert len(gray_pictures) == 1
assert all(gray_pictures[0][0][c] == expected[c] for c in ("Y", "C1", "C2"))
print("configuration is valid: static_gray generated and accepted by the validator")

# 2. Every slice_padding_data test case must serialise, validate, and decode to
#    exactly the same (mid-gray) picture.
failures = []
for tc in normalise_test_case_generator(slice_padding_data, codec_features):
    try:
        pictures = decode(tc.value)
    except Exception as e:
        failures.append((tc.name, "{}: {}".format(type(e).__name__, e)))
        continue
    if len(pictures) != 1 or any(
        pictures[0][0][c] != expected[c] for c in ("Y", "C1", "C2")
    ):
        failures.append((tc.name, "decoded picture is not the mid-gray picture"))
    else:
        print("ok      ", tc.name)

for name, why in failures:
    print("VIOLATED", name, "->", why)

sys.exit(1 if failures else 0)
