"""
C03 witness 3 (lower confidence; depends on whether such formats count as
"configurations the encoder accepts"): the encoder accepts, without complaint,
frame sizes that are not evenly divisible by the colour-subsampling / field
structure (e.g. 7x4 4:2:2 frames, 8x5 4:2:0 frames, 8x5 frames coded as fields)
and encodes pictures of exactly the size the library itself computes for that
configuration (picture_dimensions, 11.6.2) -- but the validator rejects the
resulting stream with PictureDimensionsNotMultipleOfFrameDimensions.

Run:  cd /tmp/wt/HC03 && PYTHONPATH=/tmp/wt/HC03 /venv/bin/python deliver/witness3.py
Exit status: 0 = all accepted configurations give valid streams, 1 = violation.
"""
import sys
from io import BytesIO

from vc2_data_tables import (
    Levels, Profiles, PictureCodingModes, WaveletFilters, BaseVideoFormats,
    ColorDifferenceSamplingFormats,
)
from vc2_conformance.codec_features import CodecFeatures
from vc2_conformance.pseudocode.video_parameters import (
    set_source_defaults, set_coding_parameters,
)
from vc2_conformance.pseudocode.state import State
from vc2_conformance.encoder.sequence import make_sequence
from vc2_conformance.encoder.exceptions import UnsatisfiableCodecFeaturesError
from vc2_conformance.bitstream import Stream, autofill_and_serialise_stream
from vc2_conformance.decoder import init_io, parse_stream, ConformanceError

CASES = [
    # (w, h, colour format, picture coding mode)
    (7, 4, ColorDifferenceSamplingFormats.color_4_2_2, PictureCodingModes.pictures_are_frames),
    (8, 5, ColorDifferenceSamplingFormats.color_4_2_0, PictureCodingModes.pictures_are_frames),
    (8, 5, ColorDifferenceSamplingFormats.color_4_4_4, PictureCodingModes.pictures_are_fields),
    (8, 10, ColorDifferenceSamplingFormats.color_4_2_0, PictureCodingModes.pictures_are_fields),
]

violations = 0
for w, h, cdf, pcm in CASES:
    vp = set_source_defaults(BaseVideoFormats.hd1080p_50)
    vp["frame_width"] = vp["clean_width"] = w
    vp["frame_height"] = vp["clean_height"] = h
    vp["color_diff_format_index"] = cdf
    cf = CodecFeatures(
        name="w3", level=Levels.unconstrained, profile=Profiles.high_quality,
        picture_coding_mode=pcm, video_parameters=vp,
        wavelet_index=WaveletFilters.haar_with_shift, wavelet_index_ho=WaveletFilters.haar_with_shift,
        dwt_depth=1, dwt_depth_ho=0, slices_x=2, slices_y=1, fragment_slice_count=0,
        lossless=True, picture_bytes=None, quantization_matrix=None,
    )
    # Picture sizes exactly as the library computes them for this configuration
    st = State(picture_coding_mode=pcm)
    set_coding_parameters(st, vp)
    pictures = [
        {"Y": [[(x + y + n) % 1024 for x in range(st["luma_width"])] for y in range(st["luma_height"])],
         "C1": [[512] * st["color_diff_width"] for _ in range(st["color_diff_height"])],
         "C2": [[512] * st["color_diff_width"] for _ in range(st["color_diff_height"])]}
        for n in range(2)
    ]
    desc = "%dx%d %s %s (luma %dx%d, chroma %dx%d)" % (
        w, h, cdf.name, pcm.name, st["luma_width"], st["luma_height"],
        st["color_diff_width"], st["color_diff_height"])
    try:
        seq = make_sequence(cf, pictures)
    except UnsatisfiableCodecFeaturesError as e:
        print("OK   encoder rejected %s: %s" % (desc, type(e).__name__))
        continue
    f = BytesIO()
    autofill_and_serialise_stream(f, Stream(sequences=[seq]))
    f.seek(0)
    out = []
    state = State(_output_picture_callback=lambda p, v, m: out.append(p))
    init_io(state, f)
    try:
        parse_stream(state)
        print("OK   %s: valid, %d pictures decoded" % (desc, len(out)))
    except ConformanceError as e:
        violations += 1
        print("FAIL %s: encoder accepted it, validator rejects with %s" % (desc, type(e).__name__))

sys.exit(1 if violations else 0)
