"""
D11 witness: a stream fed to vc2-bitstream-validator through a pipe (a non-seekable
file, e.g. `cat s.vc2 | vc2-bitstream-validator /dev/stdin`) ended in the
internal-error status 3 (OSError: Illegal seek from file.tell() inside parse_info)
instead of a file error.  Exits 1 when status 3 is observed, 0 otherwise.
Run from a checkout: PYTHONPATH=<checkout> python d11_non_seekable_input_status_3.py
"""
import importlib.util, os, subprocess, sys, tempfile

here = os.path.dirname(os.path.abspath(__file__))
spec = importlib.util.spec_from_file_location("d10w", os.path.join(here, "d10_output_pattern_index_in_extension.py"))
d10w = importlib.util.module_from_spec(spec)
spec.loader.exec_module(d10w)


def main():
    data = d10w.make_stream(n_pictures=1)
    tmp = tempfile.mkdtemp(prefix="d11_")
    path = os.path.join(tmp, "s.vc2")
    open(path, "wb").write(data)
    cmd = [sys.executable, "-m", "vc2_conformance.scripts.vc2_bitstream_validator", "--no-status", "--output", os.path.join(tmp, "p_%d.raw")]
    ctl = subprocess.run(cmd[:3] + [path] + cmd[3:], capture_output=True, text=True)
    print("regular file: exit status", ctl.returncode)
    p = subprocess.run(cmd[:3] + ["/dev/stdin"] + cmd[3:], input=data, capture_output=True)
    print("through a pipe: exit status", p.returncode, "|", p.stderr.decode().strip().splitlines()[-1:] )
    if ctl.returncode != 0:
        print("UNEXPECTED: control failed"); return 99
    if p.returncode == 3:
        print("VIOLATION: internal-error status for a non-seekable input"); return 1
    print("OK: no internal-error status"); return 0


if __name__ == "__main__":
    sys.exit(main())
