#!/usr/bin/env python
"""
C15 witness 1: a codec configuration accepted by the library's own
configuration reader (hd1080p_50 base format, frame size reduced to 1280x720,
clean area left at 'default') yields sequence headers -- the compact default
and every alternative encoding -- which the validator rejects with
CleanAreaOutOfRange.

Run: cd /tmp/wt/HC15 && PYTHONPATH=/tmp/wt/HC15 /venv/bin/python deliver/witness1.py
Exit status: 0 if the library behaves as C15 states (or refuses the
configuration up-front), 1 if a generated header is rejected / mis-decoded.
"""
import sys
from io import BytesIO, StringIO

from vc2_data_tables import ParseCodes
from vc2_conformance.codec_features import (
    read_codec_features_csv,
    InvalidCodecFeaturesError,
)
from vc2_conformance.encoder import (
    iter_sequence_headers,
    make_sequence,
    UnsatisfiableCodecFeaturesError,
)
from vc2_conformance.picture_generators import mid_gray
from vc2_conformance.bitstream import (
    Stream,
    Sequence,
    DataUnit,
    ParseInfo,
    autofill_and_serialise_stream,
)
from vc2_conformance.pseudocode.state import State
from vc2_conformance.decoder import init_io, parse_stream
from vc2_conformance.decoder.exceptions import ConformanceError

# A codec features table exactly as a user of vc2-test-case-generator would
# write it: HD base format, smaller (16:9, even, multiple-of-everything) frame
# size, all other video parameters 'default' (documented as "uses the value
# specified by the base_video_format").
CSV = """\
name,shrunk_hd
level,unconstrained
profile,high_quality
base_video_format,hd1080p_50
picture_coding_mode,pictures_are_frames
frame_width,1280
frame_height,720
color_diff_format_index,default
source_sampling,default
top_field_first,default
frame_rate_numer,default
frame_rate_denom,default
pixel_aspect_ratio_numer,default
pixel_aspect_ratio_denom,default
clean_width,default
clean_height,default
left_offset,default
top_offset,default
luma_offset,default
luma_excursion,default
color_diff_offset,default
color_diff_excursion,default
color_primaries_index,default
color_matrix_index,default
transfer_function_index,default
wavelet_index,haar_with_shift
wavelet_index_ho,haar_with_shift
dwt_depth,0
dwt_depth_ho,0
slices_x,1
slices_y,1
fragment_slice_count,0
lossless,TRUE
quantization_matrix,default
"""

try:
    codec_features = read_codec_features_csv(StringIO(CSV))["shrunk_hd"]
except InvalidCodecFeaturesError as e:
    print("Configuration refused by the reader (fine): %s" % e)
    sys.exit(0)

vp = codec_features["video_parameters"]
print(
    "Configured: frame %dx%d, clean area %dx%d at (%d, %d)"
    % (
        vp["frame_width"],
        vp["frame_height"],
        vp["clean_width"],
        vp["clean_height"],
        vp["left_offset"],
        vp["top_offset"],
    )
)

try:
    headers = list(iter_sequence_headers(codec_features))
except UnsatisfiableCodecFeaturesError as e:
    print("Configuration refused by the encoder (fine): %s" % e)
    sys.exit(0)

print("Encoder generated %d sequence header encodings" % len(headers))


def validate(sequence):
    """Serialise, then run through the validator. Returns (error, state)."""
    f = BytesIO()
    autofill_and_serialise_stream(f, Stream(sequences=[sequence]))
    f.seek(0)
    state = State()
    init_io(state, f)
    try:
        parse_stream(state)
    except ConformanceError as e:
        return e, state
    return None, state


failures = 0
first = None
for i, sequence_header in enumerate(headers):
    # Smallest legal sequence containing the header under test (no level
    # sequence restrictions apply for the unconstrained level).
    sequence = Sequence(
        data_units=[
            DataUnit(
                parse_info=ParseInfo(parse_code=ParseCodes.sequence_header),
                sequence_header=sequence_header,
            ),
            DataUnit(parse_info=ParseInfo(parse_code=ParseCodes.end_of_sequence)),
        ]
    )
    error, state = validate(sequence)
    if error is not None:
        failures += 1
        if first is None:
            first = (i, error)
    elif dict(state["video_parameters"]) != dict(vp) or (
        state["picture_coding_mode"] != codec_features["picture_coding_mode"]
    ):
        failures += 1
        if first is None:
            first = (i, "decoded to %r" % dict(state["video_parameters"]))

if failures:
    i, error = first
    print(
        "VIOLATION: %d of %d generated headers rejected/mis-decoded by the validator."
        % (failures, len(headers))
    )
    print("Header #%d (#0 is the compact default make_sequence_header result):" % i)
    print(headers[i])
    if isinstance(error, ConformanceError):
        print("Validator raised %s:" % type(error).__name__)
        print(error.explain())
    else:
        print(error)
    sys.exit(1)

print("All %d headers accepted and decoded to the configured format." % len(headers))
sys.exit(0)
