"""
C03 witness 1: the encoder accepts a codec configuration, returns a Sequence,
but that Sequence cannot be serialised (the chosen qindex does not fit in the
7-bit (LD) / 8-bit (HQ) qindex field), so no conformant stream is produced.

Run:  cd /tmp/wt/HC03 && PYTHONPATH=/tmp/wt/HC03 /venv/bin/python deliver/witness1.py
Exit status: 0 = property holds for these cases, 1 = violation observed.
"""
import random
import sys
from io import BytesIO

from vc2_data_tables import (
    Levels, Profiles, PictureCodingModes, WaveletFilters, BaseVideoFormats,
    ColorDifferenceSamplingFormats,
)
from vc2_conformance.codec_features import CodecFeatures
from vc2_conformance.pseudocode.video_parameters import set_source_defaults
from vc2_conformance.pseudocode.state import State
from vc2_conformance.encoder.sequence import make_sequence
from vc2_conformance.encoder.exceptions import UnsatisfiableCodecFeaturesError
from vc2_conformance.bitstream import Stream, autofill_and_serialise_stream
from vc2_conformance.decoder import init_io, parse_stream, ConformanceError


def make_cf(profile, picture_bytes, bits, quantization_matrix):
    # 8x4, 4:4:4, progressive frames, 1-level Haar, 2x1 slices
    vp = set_source_defaults(BaseVideoFormats.hd1080p_50)
    vp["frame_width"] = vp["clean_width"] = 8
    vp["frame_height"] = vp["clean_height"] = 4
    vp["color_diff_format_index"] = ColorDifferenceSamplingFormats.color_4_4_4
    vp["luma_offset"] = 0
    vp["luma_excursion"] = (1 << bits) - 1
    vp["color_diff_offset"] = 1 << (bits - 1)
    vp["color_diff_excursion"] = (1 << bits) - 1
    return CodecFeatures(
        name="w1",
        level=Levels.unconstrained,
        profile=profile,
        picture_coding_mode=PictureCodingModes.pictures_are_frames,
        video_parameters=vp,
        wavelet_index=WaveletFilters.haar_with_shift,
        wavelet_index_ho=WaveletFilters.haar_with_shift,
        dwt_depth=1,
        dwt_depth_ho=0,
        slices_x=2,
        slices_y=1,
        fragment_slice_count=0,
        lossless=False,
        picture_bytes=picture_bytes,
        quantization_matrix=quantization_matrix,
    )


def flat_matrix(v):
    return {0: {"LL": v}, 1: {"HL": v, "LH": v, "HH": v}}


CASES = [
    # (description, codec features)
    ("LD, 8 bit, custom quant matrix (all values 100), 1 byte/slice",
     make_cf(Profiles.low_delay, 2, 8, flat_matrix(100))),
    ("LD, 8 bit, custom quant matrix (all values 127), 4 bytes/slice",
     make_cf(Profiles.low_delay, 8, 8, flat_matrix(127))),
    ("LD, 32 bit signal range, default quant matrix, 1 byte/slice",
     make_cf(Profiles.low_delay, 2, 32, None)),
    ("HQ, 8 bit, custom quant matrix (all values 250), 4 bytes/slice",
     make_cf(Profiles.high_quality, 8, 8, flat_matrix(250))),
]

violations = 0
for desc, cf in CASES:
    rng = random.Random(1234)
    bits = cf["video_parameters"]["luma_excursion"].bit_length()
    picture = {
        c: [[rng.randrange(1 << bits) for _ in range(8)] for _ in range(4)]
        for c in ["Y", "C1", "C2"]
    }
    picture["pic_num"] = 0

    try:
        seq = make_sequence(cf, [picture])
    except UnsatisfiableCodecFeaturesError as e:
        # The encoder declined the configuration: fine per the property.
        print("OK   (encoder rejected: %s): %s" % (type(e).__name__, desc))
        continue

    qis = [
        s["qindex"]
        for du in seq["data_units"] if "picture_parse" in du
        for s in du["picture_parse"]["wavelet_transform"]["transform_data"].get(
            "ld_slices",
            du["picture_parse"]["wavelet_transform"]["transform_data"].get("hq_slices"),
        )
    ]

    f = BytesIO()
    try:
        autofill_and_serialise_stream(f, Stream(sequences=[seq]))
    except Exception as e:
        violations += 1
        print("FAIL: %s\n      encoder accepted the configuration, chose qindex=%r, "
              "but serialisation raised %s: %s" % (desc, qis, type(e).__name__, e))
        continue

    f.seek(0)
    out = []
    state = State(_output_picture_callback=lambda p, vp, pcm: out.append((p, vp, pcm)))
    init_io(state, f)
    try:
        parse_stream(state)
    except ConformanceError as e:
        violations += 1
        print("FAIL: %s\n      validator rejected stream: %s" % (desc, type(e).__name__))
        continue
    if len(out) != 1 or dict(out[0][1]) != dict(cf["video_parameters"]):
        violations += 1
        print("FAIL: %s\n      decoded pictures/parameters differ" % desc)
        continue
    print("OK  : %s (qindex=%r)" % (desc, qis))

print("%d violation(s)" % violations)
sys.exit(1 if violations else 0)
