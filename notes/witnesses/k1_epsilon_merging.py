"""Witness for known finding K1 (C18, C01): bidirectional epsilon edges merge states.
Each word below is accepted by the real Matcher although the pattern does not
match it.  One-off demonstration; not part of any registered check."""
from vc2_conformance.symbol_re import Matcher
from vc2_conformance.level_constraints import LEVEL_SEQUENCE_RESTRICTIONS

def accepts(pattern, word):
    m = Matcher(pattern)
    return all(m.match_symbol(s) for s in word) and m.is_complete()

cases = [
    ("a?", ["a", "a"]),
    ("(a* | b*)", ["a", "b"]),
    ("a? b", ["a", "a", "b"]),
    ("a (b | c)? d", ["a", "b", "b", "d"]),
    (LEVEL_SEQUENCE_RESTRICTIONS[1].sequence_restriction_regex,
     ["sequence_header", "high_quality_picture", "high_quality_picture_fragment", "end_of_sequence"]),
]
for p, w in cases:
    print(accepts(p, w), "|", " ".join(p.split())[:60], "|", w)
