"""Witness (D8): an exp-Golomb coded field of more than ~14 300 bits (a few kB of zero bytes where a header field
is expected) decodes to an integer of more than 4300 decimal digits; CPython >= 3.11 refuses to convert such an
integer to a decimal string (ValueError).  (1) vc2-bitstream-viewer, default options: internal-error status 255;
(2) vc2-bitstream-validator: the conformance error is raised, but reporting it fails."""
import io, sys, os, tempfile
from vc2_conformance.bitstream.io import BitstreamWriter
from vc2_conformance.scripts import vc2_bitstream_viewer as viewer, vc2_bitstream_validator as validator

f = io.BytesIO()
w = BitstreamWriter(f)
total = 13 + 1 + 4500 + 16
w.write_bytes(4, b"BBCD"); w.write_nbits(8, 0x00); w.write_nbits(32, total); w.write_nbits(32, 0)
w.write_uint(2); w.write_uint(0)      # major_version 2, minor_version 0
w.flush()
data = f.getvalue() + bytes(4500) + b"\xff" * 16      # profile: 36 000 zero bits -> a value of about 5 400 digits
d = tempfile.mkdtemp()
fn = os.path.join(d, "huge.vc2")
open(fn, "wb").write(data)
out = io.StringIO()
so, se = sys.stdout, sys.stderr
sys.stdout = sys.stderr = out
try:
    rc_view = viewer.main([fn])
    try:
        rc_val = validator.main([fn, "--no-status", "--output", os.path.join(d, "p_%d.raw")])
    except BaseException as e:
        rc_val = "raised %s: %s" % (type(e).__name__, str(e)[:80])
finally:
    sys.stdout, sys.stderr = so, se
print("viewer status:", rc_view, "(expected 0, 1 or 2; 255 = internal error)")
print("validator status:", rc_val, "(expected 2)")
sys.exit(0 if (rc_view != 255 and rc_val == 2) else 1)
