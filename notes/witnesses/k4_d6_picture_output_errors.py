"""Witness for known finding K4 (C25): a failure to create a decoded-picture file
(unwritable/nonexistent output directory, or an output pattern such as %c that
yields an unusable name) raised inside the _output_picture callback is caught by
BitstreamValidator.run's generic handler and reported as an *internal error*
(status 3) for a conformant stream.  One-off demonstration; not part of any check."""
import os, sys, tempfile
sys.path.insert(0, "/repo/tests")
from sample_codec_features import MINIMAL_CODEC_FEATURES
from vc2_conformance.bitstream import autofill_and_serialise_stream, Stream
from vc2_conformance.encoder import make_sequence
from vc2_conformance.picture_generators import mid_gray
from vc2_conformance.scripts.vc2_bitstream_validator import main

cf = MINIMAL_CODEC_FEATURES
pics = list(mid_gray(cf["video_parameters"], cf["picture_coding_mode"]))
seq = make_sequence(cf, pics)
d = tempfile.mkdtemp()
fn = os.path.join(d, "s.vc2")
with open(fn, "wb") as f:
    autofill_and_serialise_stream(f, Stream(sequences=[seq]))
print("good dir  ->", main([fn, "-q", "-o", os.path.join(d, "p_%d.raw")]))
print("no dir    ->", main([fn, "-q", "-o", os.path.join(d, "missing", "p_%d.raw")]))
print("%c pattern->", main([fn, "-q", "-o", os.path.join(d, "p_%c.raw")]))
