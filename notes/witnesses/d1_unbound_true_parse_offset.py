"""Witness for defect D1 (C02/C01): a data unit with next_parse_offset == 0
followed by a unit whose previous_parse_offset is wrong.
Before the fix: UnboundLocalError escapes parse_stream.
After the fix:  InconsistentPreviousParseOffset (a ConformanceError).
One-off demonstration; not part of any registered check."""
import io, sys
from vc2_conformance.bitstream import (
    Stream, Sequence, DataUnit, ParseInfo, autofill_and_serialise_stream, BitstreamWriter,
)
from vc2_conformance.bitstream.vc2_fixeddicts import SequenceHeader, PictureParse, Padding
from vc2_data_tables import ParseCodes
from vc2_conformance.pseudocode.state import State
from vc2_conformance.decoder import init_io, parse_stream, ConformanceError

seq = Sequence(data_units=[
    DataUnit(parse_info=ParseInfo(parse_code=ParseCodes.sequence_header), sequence_header=SequenceHeader()),
    # a picture may legitimately carry next_parse_offset == 0
    DataUnit(parse_info=ParseInfo(parse_code=ParseCodes.high_quality_picture, next_parse_offset=0), picture_parse=PictureParse()),
    # ...followed by a unit whose previous_parse_offset is wrong
    DataUnit(parse_info=ParseInfo(parse_code=ParseCodes.padding_data, previous_parse_offset=1), padding=Padding(bytes=b"")),
    DataUnit(parse_info=ParseInfo(parse_code=ParseCodes.end_of_sequence)),
])
f = io.BytesIO()
autofill_and_serialise_stream(f, Stream(sequences=[seq]))
f.seek(0)
state = State()
init_io(state, f)
try:
    parse_stream(state)
    print("accepted")
except ConformanceError as e:
    print("ConformanceError:", type(e).__name__)
except Exception as e:
    print("ESCAPED:", type(e).__name__, e)
    sys.exit(1)
