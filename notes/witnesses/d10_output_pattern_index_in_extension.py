"""
D10 witness (from the C25 defect hunter; exits 1 on the tree before the repair, 0 after it): with an --output pattern whose index lands in the file
extension (e.g. "pic.%d") the validator exits 0 but every decoded picture is
written to the SAME pair of files (pic.raw / pic.json): the extension ".0",
".1", ... is stripped by file_format.write, so earlier pictures are silently
overwritten and only the last one survives.

Exits 0 if one distinct raw/metadata pair per decoded picture exists
afterwards, non-zero otherwise.
"""
import io, json

import os, subprocess, sys, tempfile

def run_validator(bitstream_path, output_pattern, timeout=120):
    """Run the real command line tool; returns (exit status, stdout, stderr)."""
    p = subprocess.run(
        [sys.executable, "-m", "vc2_conformance.scripts.vc2_bitstream_validator",
         bitstream_path, "--no-status", "--output", output_pattern],
        capture_output=True, text=True, timeout=timeout,
    )
    return p.returncode, p.stdout, p.stderr
# ---- minimal, independent VC-2 stream writer (HQ profile, 4x2 4:4:4 8-bit frames, all-zero slices) ----
class BW:
    def __init__(self): self.b = []
    def bit(self, v): self.b.append(1 if v else 0)
    def nbits(self, n, v): self.b.extend((v >> i) & 1 for i in reversed(range(n)))
    def uint(self, v):  # interleaved exp-Golomb (A.4.3)
        v += 1
        for i in reversed(range(v.bit_length() - 1)): self.b += [0, (v >> i) & 1]
        self.b.append(1)
    def get(self):
        while len(self.b) % 8: self.b.append(0)
        return bytes(int("".join(map(str, self.b[i:i + 8])), 2) for i in range(0, len(self.b), 8))

def make_stream(n_pictures=1, dwt_depth=1):
    sh = BW()
    for v in (2, 0, 3, 0, 0): sh.uint(v)            # major=2 minor=0 profile=HQ level=0 base_video_format=0
    sh.bit(1); sh.uint(4); sh.uint(2)               # custom frame size 4x2
    sh.bit(1); sh.uint(0)                           # 4:4:4
    sh.bit(0); sh.bit(0); sh.bit(0)                 # scan format, frame rate, pixel aspect ratio: defaults
    sh.bit(1); sh.uint(4); sh.uint(2); sh.uint(0); sh.uint(0)  # clean area 4x2
    sh.bit(1); sh.uint(1)                           # signal range preset 1 (8 bit full range)
    sh.bit(0)                                       # default colour spec
    sh.uint(0)                                      # pictures are frames
    units = [(0x00, sh.get())]
    for n in range(n_pictures):
        p = BW(); p.nbits(32, n)
        p.uint(4); p.uint(dwt_depth)                # Haar (with shift), dwt_depth
        p.uint(1); p.uint(1)                        # 1x1 slices
        p.uint(0); p.uint(1)                        # slice_prefix_bytes=0, slice_size_scaler=1
        p.bit(1)                                    # custom quant matrix...
        for _ in range(1 + 3 * min(dwt_depth, 4)): p.uint(0)
        body = p.get() + bytes([0, 1, (0x2F, 0x6F, 0x3F)[n % 3], 0, 0])  # one slice: qindex=0, 1 byte of luma (a different DC value per picture), no chroma
        units.append((0xE8, body))
    units.append((0x10, b""))
    out, prev = b"", 0
    for code, payload in units:
        size = 13 + len(payload)
        out += b"BBCD" + bytes([code]) + (0 if code == 0x10 else size).to_bytes(4, "big") + prev.to_bytes(4, "big") + payload
        prev = size
    return out

def main():
    from vc2_conformance.pseudocode.state import State
    from vc2_conformance.decoder import init_io, parse_stream
    from vc2_conformance.file_format import read

    data = make_stream(n_pictures=3)
    # Reference: what the decoder outputs, in decode order
    decoded = []
    st = State(_output_picture_callback=lambda pic, vp, pcm: decoded.append(json.loads(json.dumps(pic))))
    init_io(st, io.BytesIO(data)); parse_stream(st)
    print("decoder produced %d pictures, picture numbers %r, luma[0][0] %r"
          % (len(decoded), [p["pic_num"] for p in decoded], [p["Y"][0][0] for p in decoded]))

    tmp = tempfile.mkdtemp(prefix="c25_w3_")
    path = os.path.join(tmp, "stream.vc2")
    with open(path, "wb") as f:
        f.write(data)
    status = 0
    for pattern in ["ctl_%d.raw", "pic.%d"]:
        d = os.path.join(tmp, pattern.split(".")[0].split("_")[0]); os.mkdir(d)
        rc, out, err = run_validator(path, os.path.join(d, pattern))
        files = sorted(os.listdir(d))
        print("--output %-12s exit status %d, files written: %r" % (pattern, rc, files))
        raws = [f for f in files if f.endswith(".raw")]; jsons = [f for f in files if f.endswith(".json")]
        good = rc == 0 and len(raws) == len(decoded) and len(jsons) == len(decoded)
        if good:
            for i, ref in enumerate(decoded):
                pic, vp, pcm = read(os.path.join(d, pattern % i))
                good = good and pic == ref
        if not good and rc == 2 and not files and "--output" in err:
            print("    pattern refused as a usage error before anything was decoded (behaviour after the D10 repair)")
            continue
        if not good:
            if pattern.startswith("ctl"):
                print("UNEXPECTED: control pattern failed", out, err); return 99
            if rc == 0 and raws:
                pic, vp, pcm = read(os.path.join(d, raws[0]))
                print("    surviving pair %s holds picture number %d only" % (raws[0], pic["pic_num"]))
            print("VIOLATION: exit status %d but %d raw + %d json files for %d decoded pictures"
                  % (rc, len(raws), len(jsons), len(decoded)))
            status = 1
    if status == 0:
        print("OK: one file pair per decoded picture")
    return status

if __name__ == "__main__":
    sys.exit(main())
