"""Witness for known finding K2 (C19): make_matching_sequence commits to consuming
the next required symbol whenever it can (the `continue` after that branch), so the
search is greedy rather than breadth-first over both successor kinds.
One-off demonstration; not part of any registered check."""
from vc2_conformance.symbol_re import make_matching_sequence, ImpossibleSequenceError
r = make_matching_sequence(["a"], "(a x x) | (b a)")
print("not shortest:", r, "(a shortest answer is ['b', 'a'])")
try:
    r = make_matching_sequence(["a"], "(a x x x x) | (b a)")
    print("found", r)
except ImpossibleSequenceError:
    print("reports impossibility although ['b', 'a'] matches with one insertion")
