"""Witness for defect D4 (C27): in-place merge inserts an undeclared key.
Before the fix: prints the dictionary containing 'bogus'. After: FixedDictKeyError."""
import sys
from vc2_conformance.pseudocode.state import State
from vc2_conformance.fixeddict import FixedDictKeyError
s = State()
try:
    s |= {"bogus": 1}
    print("UNDECLARED KEY HELD:", dict(s)); sys.exit(1)
except FixedDictKeyError as e:
    print("rejected:", e)
s |= {"parse_code": 16}
assert s == State(parse_code=16) and type(s) is State
print("declared key merged:", s)
