"""Witness for defect D2 (C02/C01): sequence header followed by a fragment that
carries slices although no fragmented picture was started.
Before the fix: KeyError('_last_picture_number') escapes parse_stream.
After the fix:  TooManySlicesInFragmentedPicture (a ConformanceError) that explains itself.
One-off demonstration; not part of any registered check."""
import io, struct, sys
from vc2_conformance.bitstream import (
    Stream, Sequence, DataUnit, ParseInfo, autofill_and_serialise_stream,
)
from vc2_conformance.bitstream.vc2_fixeddicts import SequenceHeader, ParseParameters
from vc2_data_tables import ParseCodes
from vc2_conformance.pseudocode.state import State
from vc2_conformance.decoder import init_io, parse_stream, ConformanceError

seq = Sequence(data_units=[
    DataUnit(parse_info=ParseInfo(parse_code=ParseCodes.sequence_header),
             sequence_header=SequenceHeader(parse_parameters=ParseParameters(major_version=3, profile=3))),
    DataUnit(parse_info=ParseInfo(parse_code=ParseCodes.end_of_sequence)),
])
f = io.BytesIO()
autofill_and_serialise_stream(f, Stream(sequences=[seq]))
data = f.getvalue()
first_unit = data[:-13]            # sequence header data unit
frag = struct.pack(">IBII", 0x42424344, 0xEC, 0, len(first_unit))      # parse_info, next_parse_offset 0
frag += struct.pack(">IHHHH", 0, 0, 1, 0, 0)   # picture_number, data_length, slice_count=1, x, y
f = io.BytesIO(first_unit + frag + b"\x00" * 64)
state = State()
init_io(state, f)
try:
    parse_stream(state)
    print("accepted")
except ConformanceError as e:
    print("ConformanceError:", type(e).__name__, "|", str(e)[:70])
    e.explain(); e.bitstream_viewer_hint(); e.offending_offset()
except Exception as e:
    print("ESCAPED:", type(e).__name__, e)
    sys.exit(1)
