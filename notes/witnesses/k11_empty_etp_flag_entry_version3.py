"""
C16 witness 1: a level column whose asym_transform_index_flag / asym_transform_flag
entry admits NO value is silently treated by the encoder as admitting False,
even when the stream it produces is a major_version-3 stream which carries the
extended transform parameters.  The validator then rejects the stream under
the very same level definition.

Run:  cd /tmp/wt/HC16 && PYTHONPATH=/tmp/wt/HC16 /venv/bin/python deliver/witness1.py
"""
import sys
from io import BytesIO

from vc2_data_tables import Levels, Profiles, WaveletFilters, PictureCodingModes, BaseVideoFormats

from vc2_conformance.constraint_table import ValueSet, AnyValue
from vc2_conformance.level_constraints import (
    LEVEL_CONSTRAINTS,
    LEVEL_SEQUENCE_RESTRICTIONS,
    LevelSequenceRestrictions,
)
from vc2_conformance.codec_features import CodecFeatures
from vc2_conformance.pseudocode.video_parameters import set_source_defaults
from vc2_conformance.pseudocode.state import State
from vc2_conformance.bitstream import Stream, autofill_and_serialise_stream
from vc2_conformance.encoder import make_sequence, UnsatisfiableCodecFeaturesError
from vc2_conformance.decoder import init_io, parse_stream, ConformanceError

LEVEL = Levels(1)
ALL_KEYS = sorted(set(k for column in LEVEL_CONSTRAINTS for k in column))


def install_single_column_level(column, regex):
    """Replace LEVEL's definition in-process (as the library's test-suite does)."""
    LEVEL_CONSTRAINTS[:] = [c for c in LEVEL_CONSTRAINTS if LEVEL not in c["level"]]
    LEVEL_CONSTRAINTS.append(column)
    LEVEL_SEQUENCE_RESTRICTIONS[LEVEL] = LevelSequenceRestrictions("synthetic", regex)


def codec_features(**overrides):
    # 8x4, 8 bit, 4:4:4 progressive format; 2x1 slices; Haar, 1 level; HQ lossy
    vp = set_source_defaults(BaseVideoFormats.hd1080p_50)
    vp.update(frame_width=8, frame_height=4, clean_width=8, clean_height=4,
              color_diff_format_index=0, luma_offset=0, luma_excursion=255,
              color_diff_offset=128, color_diff_excursion=255)
    cf = CodecFeatures(
        name="witness", level=LEVEL, profile=Profiles.high_quality,
        picture_coding_mode=PictureCodingModes.pictures_are_frames,
        video_parameters=vp,
        wavelet_index=WaveletFilters.haar_with_shift,
        wavelet_index_ho=WaveletFilters.haar_with_shift,
        dwt_depth=1, dwt_depth_ho=0, slices_x=2, slices_y=1,
        fragment_slice_count=0, lossless=False, picture_bytes=24,
        quantization_matrix=None,
    )
    cf.update(overrides)
    return cf


def picture():
    return {
        "Y": [[(x * 29 + y * 53) % 256 for x in range(8)] for y in range(4)],
        "C1": [[(x * 31 + y * 7) % 256 for x in range(8)] for y in range(4)],
        "C2": [[(x * 3 + y * 101) % 256 for x in range(8)] for y in range(4)],
        "pic_num": 0,
    }


def check(title, column_overrides, cf):
    column = {k: AnyValue() for k in ALL_KEYS}
    column["level"] = ValueSet(LEVEL)
    column.update(column_overrides)
    install_single_column_level(column, "sequence_header .* end_of_sequence")

    print("== " + title)
    try:
        sequence = make_sequence(cf, [picture()])
    except UnsatisfiableCodecFeaturesError as e:
        print("   encoder refused (%s) -- consistent with the property" % type(e).__name__)
        return True

    f = BytesIO()
    autofill_and_serialise_stream(f, Stream(sequences=[sequence]))
    sh = sequence["data_units"][0]["sequence_header"]
    print("   encoder produced a sequence without error; major_version = %d"
          % sh["parse_parameters"]["major_version"])
    f.seek(0)
    state = State()
    init_io(state, f)
    try:
        parse_stream(state)
    except ConformanceError as e:
        print("   VALIDATOR REJECTS under the same level definition: %s: %s"
              % (type(e).__name__, str(e)))
        return False
    print("   validator accepts")
    return True


ok = True

# (a) Symmetric transform but fragmented pictures (=> major_version 3, so the
#     extended transform parameters are present in the stream).  The level
#     admits no value at all for asym_transform_index_flag.
ok &= check(
    "(a) asym_transform_index_flag admits no values; fragmented pictures",
    {"asym_transform_index_flag": ValueSet()},
    codec_features(fragment_slice_count=1),
)

# (b) No fragments.  The codec itself uses an asymmetric transform depth
#     (dwt_depth_ho=1, explicitly admitted by the level: asym_transform_flag
#     forced True, dwt_depth_ho == 1) while the level admits no value for the
#     *other* flag, asym_transform_index_flag.
ok &= check(
    "(b) asym_transform_index_flag admits no values; asym_transform_flag forced True, dwt_depth_ho=1",
    {
        "asym_transform_index_flag": ValueSet(),
        "asym_transform_flag": ValueSet(True),
        "dwt_depth_ho": ValueSet(1),
    },
    codec_features(dwt_depth_ho=1),
)

# (c) Same as (a) but the empty entry is asym_transform_flag
ok &= check(
    "(c) asym_transform_flag admits no values; fragmented pictures",
    {"asym_transform_index_flag": ValueSet(False), "asym_transform_flag": ValueSet()},
    codec_features(fragment_slice_count=1),
)

# Control: an explicit {False} entry with a codec that *needs* True is refused
ok_control = check(
    "(control) asym_transform_flag forced False, dwt_depth_ho=1 -> encoder must refuse",
    {"asym_transform_flag": ValueSet(False)},
    codec_features(dwt_depth_ho=1),
)

if ok and ok_control:
    print("PASS: property held")
    sys.exit(0)
else:
    print("FAIL: encoder produced stream(s) which the validator rejects under the same level table")
    sys.exit(1)
