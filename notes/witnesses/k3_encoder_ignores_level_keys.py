"""Witness for known finding K3 (C16): level keys the validator enforces but the
encoder never consults.  A synthetic level-1 table (the repository's own test
table tests/alternative_level_constraints.csv, edited in memory) forbids the
value the codec configuration needs; the encoder still produces a sequence and
the validator rejects it under the same table.
One-off demonstration; not part of any registered check."""
import io, os, sys, copy
sys.path.insert(0, "/repo/tests")
from alternative_level_constraints import alternative_level_1
from sample_codec_features import MINIMAL_CODEC_FEATURES
from vc2_conformance.level_constraints import LEVEL_CONSTRAINTS
from vc2_conformance.constraint_table import ValueSet
from vc2_conformance.encoder import make_sequence
from vc2_conformance.bitstream import Stream, autofill_and_serialise_stream
from vc2_conformance.pseudocode.state import State
from vc2_conformance.decoder import init_io, parse_stream, ConformanceError
from vc2_conformance import picture_generators
from vc2_data_tables import Levels

def attempt(key, allowed, **feature_changes):
    with alternative_level_1():
        cf = copy.deepcopy(MINIMAL_CODEC_FEATURES)
        cf["level"] = Levels(1)
        cf.update(feature_changes)
        for col in LEVEL_CONSTRAINTS:
            if Levels(1) in col["level"]:
                col[key] = ValueSet(*allowed)
        pics = list(picture_generators.mid_gray(cf["video_parameters"], cf["picture_coding_mode"]))
        try:
            seq = make_sequence(cf, pics)
        except Exception as e:
            print(key, ": encoder refused:", type(e).__name__); return
        f = io.BytesIO()
        autofill_and_serialise_stream(f, Stream(sequences=[seq]))
        f.seek(0)
        st = State(); init_io(st, f)
        try:
            parse_stream(st); print(key, ": validator accepted")
        except ConformanceError as e:
            print(key, ": ENCODER SUCCEEDED, VALIDATOR REJECTS:", type(e).__name__, "|", str(e)[:70])

attempt("qindex", [63])                    # forbid the qindex values the encoder will pick
attempt("total_slice_bytes", [1])
attempt("slice_size_scaler", [7])
attempt("minor_version", [1])
