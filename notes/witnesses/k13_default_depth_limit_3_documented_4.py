"""
C19 witness 1: the number of consecutive insertions permitted by default is
documented as 4 but the code permits only 3, so with default arguments the
generator reports impossibility although a matching sequence with exactly 4
consecutive insertions exists.

Run:  cd /tmp/wt/HC19 && PYTHONPATH=/tmp/wt/HC19 /venv/bin/python deliver/witness1.py
"""
import re
import sys

from vc2_conformance.symbol_re import (
    make_matching_sequence,
    ImpossibleSequenceError,
    Matcher,
)

failures = []

# What the library documents as the permitted number of consecutive insertions
doc = make_matching_sequence.__doc__
m = re.search(r"depth_limit : int.*?Defaults to (\d+)\.", doc, re.S)
documented_default = int(m.group(1))
print("documented default depth_limit:", documented_default)


def accepts(pattern, seq):
    mt = Matcher(pattern)
    return all(mt.match_symbol(s) for s in seq) and mt.is_complete()


def try_default(required, *patterns, **kw):
    try:
        return make_matching_sequence(list(required), *patterns, **kw)
    except ImpossibleSequenceError:
        return None


# --- Case A: abstract, tiny alphabet -----------------------------------------
required = ["a"]
pattern = "b b b b a"
solution = ["b", "b", "b", "b", "a"]  # exactly 4 consecutive insertions
assert accepts(pattern, solution)
got_default = try_default(required, pattern)
got_explicit = try_default(required, pattern, depth_limit=documented_default)
print("A: default args      ->", got_default)
print("A: depth_limit=%d     ->" % documented_default, got_explicit)
if got_default is None and got_explicit is not None:
    failures.append(
        "A: default call raised ImpossibleSequenceError although %r (only %d "
        "consecutive insertions = documented default) matches %r"
        % (solution, documented_default, pattern)
    )

# --- Case B: the exact pattern set make_sequence() builds for level 0 --------
# (make_sequence always uses the default depth limit)
patterns = (
    "sequence_header .* end_of_sequence",  # fixed rule in make_sequence
    ".*",  # LEVEL_SEQUENCE_RESTRICTIONS[0]
    "(sequence_header padding_data auxiliary_data .)*",  # caller's pattern
)
required = ["high_quality_picture"]
solution = [
    "sequence_header", "padding_data", "auxiliary_data", "high_quality_picture",
    "sequence_header", "padding_data", "auxiliary_data", "end_of_sequence",
]
assert all(accepts(p, solution) for p in patterns)
kw = dict(symbol_priority=["padding_data", "sequence_header"])
got_default = try_default(required, *patterns, **kw)
got_explicit = try_default(required, *patterns, depth_limit=documented_default, **kw)
print("B: default args      ->", got_default)
print("B: depth_limit=%d     ->" % documented_default, got_explicit)
case_b_failed = got_default is None and got_explicit is not None
if case_b_failed:
    failures.append(
        "B: level-0 pattern set: impossibility reported though %r needs at most "
        "%d consecutive insertions" % (solution, documented_default)
    )

# --- Case C: same thing end-to-end through the encoder (best effort) ---------
try:
    import os
    from vc2_conformance.codec_features import read_codec_features_csv
    from vc2_conformance.encoder import make_sequence
    from vc2_conformance.encoder.exceptions import IncompatibleLevelAndDataUnitError
    from vc2_conformance.picture_generators import mid_gray

    cf = read_codec_features_csv(
        open(os.path.join("tests", "sample_codec_features.csv"))
    )["minimal"]
    assert cf["level"] == 0
    pics = list(mid_gray(cf["video_parameters"], cf["picture_coding_mode"]))[:1]
    try:
        seq = make_sequence(cf, pics, "(sequence_header padding_data auxiliary_data .)*")
        names = [du["parse_info"]["parse_code"].name for du in seq["data_units"]]
        print("C: make_sequence ->", names)
    except IncompatibleLevelAndDataUnitError:
        print("C: make_sequence -> IncompatibleLevelAndDataUnitError")
        if case_b_failed:
          failures.append(
            "C: make_sequence(level 0, 1 picture, '(sequence_header padding_data "
            "auxiliary_data .)*') raised IncompatibleLevelAndDataUnitError although a "
            "valid ordering with <= %d consecutive insertions exists" % documented_default
        )
except Exception as e:  # environment trouble only; cases A/B already decide
    print("C: skipped (%s: %s)" % (type(e).__name__, e))

if failures:
    print("\nVIOLATION of C19 (impossibility reported though a sequence exists "
          "within the documented/permitted number of consecutive insertions):")
    for f in failures:
        print(" -", f)
    sys.exit(1)
print("OK")
sys.exit(0)
