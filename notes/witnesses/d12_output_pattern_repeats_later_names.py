"""
C25 witness 1: vc2-bitstream-validator accepts --output patterns which give
several pictures the same file names, exits 0, and silently leaves fewer
raw/json pairs than pictures decoded (later pictures overwrite earlier ones).

Run:  cd /tmp/wt/HC25 && PYTHONPATH=/tmp/wt/HC25 /venv/bin/python deliver/witness1.py
"""
import contextlib, copy, io, os, shutil, sys, tempfile

sys.path.insert(0, os.path.join(os.path.dirname(os.path.abspath(__file__)), "..", "tests"))
from sample_codec_features import MINIMAL_CODEC_FEATURES

from vc2_conformance.codec_features import CodecFeatures
from vc2_conformance.encoder import make_sequence
from vc2_conformance.bitstream import Stream, autofill_and_serialise_stream
from vc2_conformance.picture_generators import moving_sprite
from vc2_conformance.pseudocode.state import State
from vc2_conformance.decoder import init_io, parse_stream
from vc2_conformance.file_format import read
from vc2_conformance.scripts.vc2_bitstream_validator import main

NUM_PICTURES = 11

tmp = tempfile.mkdtemp(prefix="c25w1_")
stream_fn = os.path.join(tmp, "stream.vc2")

# A conformant 11-picture stream from the encoder
cf = CodecFeatures(MINIMAL_CODEC_FEATURES)
pics = list(moving_sprite(cf["video_parameters"], cf["picture_coding_mode"], NUM_PICTURES))
with open(stream_fn, "wb") as f:
    autofill_and_serialise_stream(f, Stream(sequences=[make_sequence(cf, pics)]))

# Reference decode
ref = []
st = State(_output_picture_callback=lambda p, vp, pcm: ref.append(copy.deepcopy(p)))
with open(stream_fn, "rb") as f:
    init_io(st, f)
    parse_stream(st)
assert len(ref) == NUM_PICTURES

failed = False
for pattern in ["pic_%e", "pic_%.1s.raw", "pic_%.1g.raw"]:
    outdir = os.path.join(tmp, "out")
    shutil.rmtree(outdir, ignore_errors=True)
    os.makedirs(outdir)
    so, se = io.StringIO(), io.StringIO()
    try:
        with contextlib.redirect_stdout(so), contextlib.redirect_stderr(se):
            rc = main([stream_fn, "-q", "-o", os.path.join(outdir, pattern)])
    except SystemExit as e:
        # Pattern refused up-front: acceptable behaviour
        print("{!r}: refused by the command line parser (OK)".format(pattern))
        continue
    files = sorted(os.listdir(outdir))
    n_raw = len([x for x in files if x.endswith(".raw")])
    n_json = len([x for x in files if x.endswith(".json")])
    print("{!r}: exit status {}, {} pictures decoded, {} .raw + {} .json files: {}".format(
        pattern, rc, len(ref), n_raw, n_json, files))
    if rc == 0 and (n_raw != len(ref) or n_json != len(ref)):
        failed = True
        # Show that the file named for index 1 holds a later picture
        name1 = os.path.join(outdir, pattern % (1,))
        got, _, _ = read(name1)
        which = [i for i, p in enumerate(ref) if p["pic_num"] == got["pic_num"]]
        print("    file for index 1 ({}) actually contains decoded picture index {}".format(
            os.path.basename(name1), which))

shutil.rmtree(tmp, ignore_errors=True)
if failed:
    print("VIOLATION: exit 0 but not one raw/metadata pair per decoded picture")
    sys.exit(1)
print("OK")
sys.exit(0)
