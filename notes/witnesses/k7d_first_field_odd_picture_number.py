"""C03 witness 2: field coding with caller-chosen picture numbers whose first
field is odd (e.g. 1,2 or 2**32-1,0).

make_sequence() copies the given pic_num values into the stream unchecked; the
validator rejects the result (EarliestFieldHasOddPictureNumber, VC-2 12.2), so
"a stream the validator accepts ... with the given picture numbers" fails for
this picture-number choice. Exits 0 if accepted or refused up front.
"""
import os, sys
from io import BytesIO

sys.path.insert(0, os.path.join(os.path.dirname(os.path.abspath(__file__)), "..", "tests"))
from sample_codec_features import MINIMAL_CODEC_FEATURES

from vc2_data_tables import PictureCodingModes
from vc2_conformance.pseudocode.state import State
from vc2_conformance.encoder.sequence import make_sequence
from vc2_conformance.encoder.exceptions import UnsatisfiableCodecFeaturesError
from vc2_conformance.bitstream import Stream, autofill_and_serialise_stream
from vc2_conformance.decoder import init_io, parse_stream, ConformanceError

cf = MINIMAL_CODEC_FEATURES.copy()
cf["picture_coding_mode"] = PictureCodingModes.pictures_are_fields
w = cf["video_parameters"]["frame_width"]
h = cf["video_parameters"]["frame_height"] // 2

status = 0
for first in (1, 2**32 - 1):
    nums = [first, (first + 1) & 0xFFFFFFFF]
    pictures = [
        dict({c: [[100] * w for _ in range(h)] for c in ("Y", "C1", "C2")}, pic_num=n)
        for n in nums
    ]
    try:
        seq = make_sequence(cf, pictures)
    except (UnsatisfiableCodecFeaturesError, ValueError) as e:
        print("pic_nums %r: encoder refused (%s) -- fine" % (nums, type(e).__name__))
        continue
    f = BytesIO()
    autofill_and_serialise_stream(f, Stream(sequences=[seq]))
    f.seek(0)
    decoded = []
    state = State(_output_picture_callback=lambda p, vp, pcm: decoded.append(p["pic_num"]))
    init_io(state, f)
    try:
        parse_stream(state)
        print("pic_nums %r: accepted, decoded %r" % (nums, decoded))
        if decoded != nums:
            status = 1
    except ConformanceError as e:
        print("pic_nums %r: encoder accepted them but validator REJECTED: %s" % (nums, type(e).__name__))
        status = 1
sys.exit(status)
