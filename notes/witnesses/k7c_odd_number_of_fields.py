"""C03 witness 1: field coding + an odd number of input pictures.

make_sequence() accepts the configuration and the pictures without complaint,
autofill_and_serialise_stream() serialises the result, but the validator
rejects the stream (OddNumberOfFieldsInSequence, VC-2 10.4.3), so "one decoded
picture per input picture in a stream the validator accepts" does not hold.
Exits 0 if the stream is accepted (or the encoder refuses the input up front).
"""
import os, sys
from io import BytesIO

sys.path.insert(0, os.path.join(os.path.dirname(os.path.abspath(__file__)), "..", "tests"))
from sample_codec_features import MINIMAL_CODEC_FEATURES  # 8x4, 8 bit, 4:4:4, Haar

from vc2_data_tables import PictureCodingModes
from vc2_conformance.pseudocode.state import State
from vc2_conformance.encoder.sequence import make_sequence
from vc2_conformance.encoder.exceptions import UnsatisfiableCodecFeaturesError
from vc2_conformance.bitstream import Stream, autofill_and_serialise_stream
from vc2_conformance.decoder import init_io, parse_stream, ConformanceError

cf = MINIMAL_CODEC_FEATURES.copy()
cf["picture_coding_mode"] = PictureCodingModes.pictures_are_fields
w = cf["video_parameters"]["frame_width"]
h = cf["video_parameters"]["frame_height"] // 2  # field height


def field(v):
    return {c: [[v] * w for _ in range(h)] for c in ("Y", "C1", "C2")}


status = 0
for n in (1, 3):
    pictures = [field(16 * (i + 1)) for i in range(n)]
    try:
        seq = make_sequence(cf, pictures)
    except UnsatisfiableCodecFeaturesError as e:
        print("%d fields: encoder refused (%s) -- fine" % (n, type(e).__name__))
        continue
    f = BytesIO()
    autofill_and_serialise_stream(f, Stream(sequences=[seq]))
    f.seek(0)
    decoded = []
    state = State(_output_picture_callback=lambda p, vp, pcm: decoded.append(p["pic_num"]))
    init_io(state, f)
    try:
        parse_stream(state)
        print("%d fields: validator accepted, decoded pic_nums %r" % (n, decoded))
    except ConformanceError as e:
        print(
            "%d fields: encoder accepted the input but the validator REJECTED the "
            "stream: %s (decoded so far: %r)" % (n, type(e).__name__, decoded)
        )
        status = 1
sys.exit(status)
