#!/usr/bin/env python
"""
C01 witness 1: under levels 64 and 65 the validator cannot accept ANY sequence
containing a picture, although the stream obeys every structure rule (sequence
header first, end-of-sequence last, correct parse offsets, identical repeated
headers, LD picture parse codes permitted by the LD profile and by major
version 2, consecutive picture numbers, whole frames, and the level's
"(sequence_header low_delay_picture)* end_of_sequence" ordering pattern).

The level table (vc2_conformance/level_constraints.csv) demands
profile == 0 (low delay) AND major_version == 2 for levels 64/65, while
assert_major_version_is_minimal() demands major_version == 1 for a sequence
that only uses the LD profile/LD pictures.  The two checks are mutually
exclusive, so:

  * major_version = 2 (what the level requires) -> MajorVersionTooHigh
  * major_version = 1 (what minimality requires) -> ValueNotAllowedInLevel

Run:  cd /tmp/wt/HC01 && PYTHONPATH=/tmp/wt/HC01 /venv/bin/python deliver/witness1.py
(takes ~20-40 s: a level-65 picture is 1280x720 and is really decoded)
"""
import struct
import sys
from io import BytesIO

from vc2_conformance import decoder
from vc2_conformance.pseudocode.state import State

SH, EOS, LDP = 0x00, 0x10, 0xC8


class Bits(object):
    def __init__(self):
        self.bits = []

    def bit(self, b):
        self.bits.append(1 if b else 0)

    def uint(self, v):  # VC-2 interleaved exp-Golomb (A.4.3)
        v += 1
        n = v.bit_length()
        for i in range(n - 2, -1, -1):
            self.bits.append(0)
            self.bits.append((v >> i) & 1)
        self.bits.append(1)

    def bytes(self):
        bits = self.bits + [0] * (-len(self.bits) % 8)
        out = bytearray()
        for i in range(0, len(bits), 8):
            x = 0
            for b in bits[i : i + 8]:
                x = (x << 1) | b
            out.append(x)
        return bytes(out)


def sequence_header(major_version, level, base_video_format):
    b = Bits()
    b.uint(major_version)
    b.uint(0)  # minor_version
    b.uint(0)  # profile = low delay
    b.uint(level)
    b.uint(base_video_format)
    for _ in range(8):  # no custom frame size/colour fmt/scan/frame rate/
        b.bit(0)  # pixel aspect/clean area/signal range/colour spec
    b.uint(0)  # picture_coding_mode = frames
    return b.bytes()


def ld_picture(number, wavelet_index, dwt_depth, sx, sy, numer, denom):
    b = Bits()
    b.uint(wavelet_index)
    b.uint(dwt_depth)
    b.uint(sx)
    b.uint(sy)
    b.uint(numer)
    b.uint(denom)
    b.bit(0)  # custom_quant_matrix
    assert (sx * sy * numer) % denom == 0
    slices = b"\x00" * (sx * sy * numer // denom)  # all-zero slices are valid
    return struct.pack(">I", number) + b.bytes() + slices


def stream(units):
    out = b""
    prev = 0
    for i, (code, payload) in enumerate(units):
        npo = 0 if code == EOS else 13 + len(payload)
        out += struct.pack(">IBII", 0x42424344, code, npo, prev) + payload
        prev = 13 + len(payload)
    return out


def verdict(data):
    st = State()
    decoder.init_io(st, BytesIO(data))
    try:
        decoder.parse_stream(st)
    except decoder.ConformanceError as e:
        return "REJECTED: %s: %s" % (type(e).__name__, e)
    return "accepted"


# Level 65 (RP 2047-3, 720p60 over SD-SDI): base video format 9 (HD720P-60),
# Le Gall wavelet (1), depth 3, 80x90 slices of 243/5 bytes -- the only
# picture parameters the level table allows for this format.
pic = ld_picture(0, 1, 3, 80, 90, 243, 5)

results = {}
for mv in (2, 1):
    sh = sequence_header(mv, 65, 9)
    data = stream([(SH, sh), (LDP, pic), (EOS, b"")])
    results[mv] = verdict(data)
    print("level 65, LD profile, major_version=%d, [sequence_header, low_delay_picture, end_of_sequence]" % mv)
    print("   ->", results[mv])

# Control: the very same data units labelled level 0 / major_version 1 are fine,
# showing the data units and the stream structure themselves are good.
sh0 = sequence_header(1, 0, 9)
ctrl = verdict(stream([(SH, sh0), (LDP, pic), (EOS, b"")]))
print("control (level 0, major_version=1, same picture) ->", ctrl)

if ctrl != "accepted":
    print("control stream unexpectedly rejected; witness inconclusive")
    sys.exit(0)

if all(r != "accepted" for r in results.values()):
    print(
        "VIOLATION: no major_version lets a structurally conformant level-65 "
        "sequence through the validator (level table wants 2, minimality wants 1)."
    )
    sys.exit(1)
print("OK: a structurally conformant level-65 sequence is accepted")
sys.exit(0)
