# K12 witness: _common.py of the hunter inlined below
"""Shared checker used by the witnesses: validates the C22 statement for one
(generator, video_parameters, picture_coding_mode) triple."""
import warnings
from vc2_data_tables import PictureCodingModes
from vc2_conformance.dimensions_and_depths import compute_dimensions_and_depths


def check(gen, vp, pcm):
    """Return a list of problems (empty list == property holds)."""
    with warnings.catch_warnings():
        warnings.simplefilter("ignore")
        try:
            pics = list(gen(vp, pcm))
        except Exception as e:  # no pictures at all were produced
            return ["raised %s: %s" % (type(e).__name__, e)]
    problems = []
    if len(pics) < 1:
        problems.append("no pictures")
    if pcm == PictureCodingModes.pictures_are_fields and len(pics) % 2:
        problems.append("odd number of fields")
    dd = compute_dimensions_and_depths(vp, pcm)
    for i, p in enumerate(pics):
        if p["pic_num"] != i:
            problems.append("pic_num %r at index %d" % (p["pic_num"], i))
        for c in ["Y", "C1", "C2"]:
            d = dd[c]
            if len(p[c]) != d.height or any(len(r) != d.width for r in p[c]):
                problems.append("%s has wrong size" % c)
            elif any(
                type(v) is not int or not (0 <= v < (1 << d.depth_bits))
                for r in p[c]
                for v in r
            ):
                problems.append("%s has out-of-range/non-int sample" % c)
    return problems
"""C22 witness 2: a regular 8-bit 16x8 format with a custom pixel aspect ratio
wider than 128:1 (here 129:1; legal, both terms non-zero) makes the two
sprite-based generators raise ValueError from PIL ("height and width must be
> 0") because the 128-pixel sprite is rescaled to a width of 128*1//129 == 0.
The mirror-image ratio 1:129 and every other generator work."""
import sys, os
sys.path.insert(0, os.path.dirname(os.path.abspath(__file__)))
from vc2_data_tables import BaseVideoFormats, PictureCodingModes
from vc2_conformance.pseudocode.video_parameters import set_source_defaults
from vc2_conformance import picture_generators as pg

bad = 0
for par in [(1, 129), (128, 1), (129, 1)]:
    vp = set_source_defaults(BaseVideoFormats.hd1080p_50)
    vp["frame_width"] = 16
    vp["frame_height"] = 8
    vp["pixel_aspect_ratio_numer"], vp["pixel_aspect_ratio_denom"] = par
    for pcm in PictureCodingModes:
        for gen in [pg.moving_sprite, pg.static_sprite, pg.linear_ramps, pg.mid_gray, pg.white_noise]:
            problems = check(gen, vp, pcm)
            if problems or par == (129, 1):
                print("PAR %d:%d %-20s %-14s %s" % (par + (pcm.name, gen.__name__, problems[:1] or "ok")))
            bad += bool(problems)
print("violations:", bad)
sys.exit(1 if bad else 0)
